#!/bin/bash
# builds the verifier and warms the Go build cache for -tags=verif loads (offline)
export GOFLAGS=-mod=mod GOPROXY=off GOSUMDB=off GOTOOLCHAIN=local
cd "$(dirname "$0")"
mkdir -p bin
(cd govc && go build -o ../bin/govc .) || exit 1
bin/govc warm || exit 1
