#!/usr/bin/env python3
# Regenerates MANIFEST.json from the table below (kept in one place so it stays valid).
import json, subprocess
claimed = {
 "C08": dict(
   text="Deductive proof (SSA->SMT VCs, all inputs) that the real getObjState implements the create/drop/re-create decision stated in the property, for all orders of the three timestamps and both presence bits over full uint64.",
   note="Trusted: go/ssa semantics, solvers, logging calls modify nothing. Not decided: truth of the recorded times (C15 / downstream probes).",
   design="3 (C08)"),
}
na_reason = "contracts for this property are not yet written in this round (see DESIGN.md section 10 for status)"
all_ids = [json.loads(l)["id"] for l in open("properties.jsonl")]
hooks = subprocess.run(["git","-C","/repo","log","--format=%H %s"],capture_output=True,text=True).stdout.strip().split("\n")
hook_commits = [l.split()[0] for l in hooks if l.split(" ",1)[1].startswith("verif:")]
m = {
 "version": 1,
 "setup_cmd": "./setup.sh",
 "hooks": {
   "guard": "verif",
   "enable": "-tags=verif (govc loads /repo packages with this tag; the only hooked files are comment-only zz_contracts_verif.go contract files)",
   "baseline_off_cmd": "for m in core rocksdb server; do (cd /repo/$m && GOFLAGS=-mod=mod go test -json -vet=off -count=1 -timeout 25m ./...); done",
   "source_commits": hook_commits,
   "add_only": True,
 },
 "engines": [{"name":"govc","path":"govc/","serves_properties":sorted(claimed),"kind_free_text":"contract-based deductive verifier for Go written for this task: weakest-precondition style VC generation over go/ssa of /repo's working tree, contracts in //@ comment files (build tag verif), obligations discharged by z3 5.1 / cvc5 1.0 / z3 4.8, counterexamples replayed on the real code with go test -overlay"}],
 "checks": [],
 "not_applicable": [],
 "notes": "All checks: ./check <id> quick|thorough. Exit 0 = every obligation discharged; exit 1 + VIOLATION line = a named obligation failed (replay file carries the solver model and the replay on the real code); exit 2 = broken build/contract (undecided).",
}
for i in all_ids:
    if i in claimed:
        c = claimed[i]
        m["checks"].append({
          "property_id": i, "quick_cmd": f"./check {i} quick", "thorough_cmd": f"./check {i} thorough",
          "evidence_file": f"evidence/{i}.json", "replay_cmd_template": "./check --replay {path}", "engine": "govc",
          "level_claimed": {"category":"proof","text":c["text"],"design_ref":c["design"]},
          "level_note": c["note"],
          "technique": "contract-based deductive verification: SSA->SMT weakest-precondition VCs of the real functions against //@ contracts, discharged by z3/cvc5"})
    else:
        m["not_applicable"].append({"property_id": i, "reason": na_reason})
json.dump(m, open("MANIFEST.json","w"), indent=1)
print("claimed", sorted(claimed), "hooks", len(hook_commits))
