#!/usr/bin/env python3
# Regenerates MANIFEST.json from the table below (kept in one place so it stays valid).
import json, subprocess
claimed = {
 "C17": dict(
   text="Deductive proof on the real ReplicateMeteImpl (store as ghost map): after every successful update the in-memory and the persisted ready set of that (task, message) both equal the union of all reports, readiness is reported exactly when that union equals the target set, other messages are untouched, a failing store write changes nothing, and RemoveTaskMsg removes the message from store and memory for collection and partition drops alike. Three genuine defects (F3, F4, F20) were found by failing obligations, reproduced on the real code and repaired by fix: commits.",
   note="Assumed contracts: api.ReplicateStore Put/Remove are atomic per key; BaseTaskMsg.IsReady == set equality for duplicate-free lists; lo.Union yields the union. Reload from the store is not yet under contract. metaLock: lock-held discipline (lockonly), contracts are sequential.",
   design="3 (C17)"),
 "C08": dict(
   text="Deductive proof on the real writer code: getObjState equals the decision function written from the property (all orders of the three timestamps and both presence bits, full uint64); the three readiness functions decide from the recorded times keyed by source names and probe the mapped names only when unknown, recording a successful probe under the source create key; the cascade WaitObjReady skips exactly on a recorded drop at the first undecided level; and every skip-aware operation (create/drop/alter index, load/release collection, create/drop partition, create/drop collection) issues no downstream request when a drop is recorded, exactly one when the incarnation is recorded created, and returns no error for a failed call on an object recorded dropped meanwhile. Findings F21 (alterIndex had no re-check) fixed.",
   note="Create/drop tables are ghost maps attached to core/util.Map objects (built-in model, trusted). DataHandler methods are trusted interface contracts (ghost call record; an operation call is a synchronisation point where other DDL handlers may update the tables). retry.Do model: >=1 attempt. Partition-list operations: skip filtering of individual partitions is not yet proved (only request count/routing). Not decided: truth of the recorded times (C15 / downstream probes).",
   design="3 (C08)"),
 "C04": dict(
   text="Deductive proof on the real barrier goroutine (NewBarrier's closure): the update callback runs once per received shard signal, the drop callback fires at most once and only after Dest signals were received by this barrier (funcparam precondition at its call site), closing the barrier never fires it, and the wait loop terminates on every arm (decreases clause). Finding F8 (goroutine spinning forever after close) was found by the failing termination obligation, reproduced and fixed.",
   note="Receives are counted by a ghost per-barrier counter (chancount). Callbacks are assumed not to modify the barrier (funcparam frames). Not yet under contract: once-only signal per shard (OnceWriteChan), barrier sizing and the event callbacks in StartReadCollection/AddPartition, synthetic drops; registration races (schedules) and exactly-once across restarts (histories) are out of reach.",
   design="3 (C04)"),
 "C11": dict(
   text="Deductive proof on the real code of the state-machine kernel: the three per-state task gauge sets stay pairwise disjoint under Add/UpdateState/Delete and move a task only if it was counted under the given old state; UpdateTaskState writes at most one record, which carries the new state and reason, and never deletes; DeleteTask removes record and checkpoints inside one transaction that is finished exactly once (commit only after both deletes, no delete outside it); TaskState.IsValidTaskState is exactly {Initial, Running, Paused}; the barrier goroutine terminates after close (F8 fixed).",
   note="Singleton gauge object well-formedness is assumed (constructor). Not yet under contract: MetaCDC.Create/Pause/Resume/Delete/ReloadTask, pauseTaskWithReason (four-view agreement, refcount/cleanup), reader shutdown. Restart histories and leftover goroutines inside dependencies are out of reach.",
   design="3 (C11)"),
 "C06": dict(
   text="Deductive proof (with the zero-annotation no-panic sweep) on the real hand-over path of the reader: innerHandleReplicateMsg never panics whatever handlePack returns (nil included), emits at most one pack labelled with the stream's task/collection/channel, SendTargetMsg enqueues exactly the given pack, and sendErrEvent emits exactly one ReplicateError event naming the owning task. Two genuine defects (F1 nil dereference, F2 events without task id) were found by failing obligations, reproduced on the real code and repaired by fix: commits.",
   note="handlePack itself is not yet verified: at its call site only the frame `modifies * except out` is assumed. Server-side pause path (pauseTaskWithReason, event loop, batch callback) not yet under contract (DESIGN.md section 10). Channel sends are ghost events; goroutine interleavings are out of reach.",
   design="3 (C06)"),
 "C09": dict(
   text="Deductive proof on the real writer code: mapDBAndCollectionName returns the task's name mapping applied to the source names (exact entry, else whole-database entry, else unchanged; default database for empty) - proved over the util.Map.Range loop for all tables whose applicable entries agree; every DDL/DCL operation, API event and readiness probe under contract routes ReplicateParam.Database and the request's own names to that result while bookkeeping keys use the source names. Findings F5 (releasePartitions routed with the source database) and F6 (alterIndex routed to the default database) were found by failing obligations, reproduced on the real code and fixed.",
   note="Assumption agreeNames (entries that apply to the same names agree) is not enforced by request validation. Not yet under contract: the five DML rewrites in HandleReplicateMessage, flush, reader-side TargetClient, MilvusDataHandler (routes by param.Database, read only).",
   design="3 (C09)"),
 "C20": dict(
   text="Deductive proof on the real writer code that each supported operation message / API event that is not skipped produces exactly one downstream request of its kind, carrying the replication stamp of the pack (same MsgBase / ReplicateInfo object) and the source's identity fields (index, field, params, replica number, user/role/privilege fields; pass-through requests are the same object with only names and stamp changed - frame-checked), and that HandleOpMessagePack rejects packs with no or more than one message without any downstream call and returns the last end position's message id.",
   note="Dispatch through the opMessageFuncs/apiEventFuncs tables is a dynamic call (havoc): table totality is not yet proved. Partition lists: only length bound, not yet the exact filtered list. createCollection schema: entity.Schema.ReadProto is a trusted contract. Reader-side event constructors not yet under contract.",
   design="3 (C20)"),
 "C12": dict(
   text="Deductive proof of the key algebra of the etcd metadata backend on the real key functions: each key function equals its spec (path.Join modelled), keys are injective in task and collection, the per-task scan prefix covers only that task's keys (ids sharing a prefix are not touched), task-info and position keyspaces are disjoint, and roots that are not '/'-boundary prefixes of each other are isolated.",
   note="Proved for identifiers without '/', '.', '..' and clean root paths (stated as requires/assumes). Trusted: path.Join model, decimal rendering of int64 is injective and '/'-free, etcd range semantics. Not yet under contract in this round: MySQL SQL text, record read-modify-write, transactional delete (see DESIGN.md section 10).",
   design="3 (C12)"),
 "C14": dict(
   text="Deductive proof on the real Packer.Receive / ClearMsgs / checkers / MemoryProtector: delivered++buffered grows by exactly the received pack (nothing lost, invented, duplicated or reordered), a flush is all-or-nothing and hands the callback exactly the buffer in order, the callback error is returned, count and memory triggers flush, and the budget bookkeeping (lock invariant current == sum of shares; batcher invariant share == buffered bytes) returns to zero when all batchers are empty.",
   note="Ghost sequence `delivered` records callback invocations (funcparam contract, assumed for callbacks: they do not touch the packer). Age trigger: time is arbitrary. Lock invariant via monitor rule for MemoryProtector.lock. The call sites in server.startReplicateDMLMsg (final flush) are not yet under contract.",
   design="3 (C14)"),
 "C15": dict(
   text="Deductive proof that the real name-key functions (create/drop keys for database, collection, partition) equal their spec including the default-database normalisation, that create and drop keys never coincide, and that keys are injective for names without '_'; the general injectivity lemma fails and is recorded as known finding F12.",
   note="Not yet under contract in this round: GetAllDroppedObj scan and horizon arithmetic, NewChannelWriter seeding (DESIGN.md section 10).",
   design="3 (C15)"),
 "C16": dict(
   text="Deductive proof on the real ChannelMapping type: average == ceil(larger/smaller) (non-linear, full int range under the count precondition), NewChannelMapping establishes the shape invariant, CheckKeyNotExist returns exactly 'quota not exhausted' (map-iteration loops with counting invariants), AddKeyValue preserves shape and balance (no channel serves more than averageCnt; injective when equal), assigns the requested pair and never changes an existing assignment; CheckKeyExist / GetMapKey / GetMapValue / UsingSourceKey equal their specs.",
   note="Trusted: four cardinality axioms (cntEmpty, cntAddKey, cntStoreOutside, cntStoreInside), map iteration visits < 2^56 keys. Call sites in replicateChannelManager (channelLock discipline) not yet under contract; liveness of the wait/forward rendez-vous is out of reach.",
   design="3 (C16)"),
 "C18": dict(
   text="Deductive proof on the real server code that (1) request.GetTask returns a task with empty Milvus username/password/token and Kafka SASL username/password, and MetaCDC.Get / MetaCDC.List answer with such tasks only (List via the lo.Map model over its closure's contract); (2) GetRequestInfo - the text logged for every request - is produced from a copy of a create request with every credential field empty and never from the raw request envelope, without modifying the caller's request; (3) every value handed to zap.Any in the functions under contract (Create's deferred log, validCreateRequest, ReloadTask, the HTTP handler) is not a create request, connect parameter or task record with a non-empty credential (precondition on zap.Any). Four genuine defects (F9 SASL credentials in the request log line; F10 raw request logged on failed create; F11 connect parameters logged on a failed connection test; F13 stored task record logged by ReloadTask) were found by failing obligations, reproduced on the real code (log file inspected) and repaired by fix: commits.",
   note="Trusted: json.Marshal/zap.Any record their argument in ghost state; what zap/JSON serialisation prints is exactly the value's fields. Only zap.Any is under a logging contract: credentials formatted into message strings or errors (fmt.Sprintf, err.Error() of client libraries) are not tracked. Not under contract: log statements of functions outside the ones listed (startInternal, newReplicateEntity, readers/writers in core), the dispatch-table assumption that handlers return response values. Fault sequences are covered per function (every return path), not as API histories.",
   design="3 (C18)"),
 "C19": dict(
   text="Deductive proof on the real HTTP handler closure (getCDCHandler$1), handleRequest and handleError that every request produces exactly one JSON document (ghost counter of Encoder.Encode calls on the response writer) whose code is 200, 400, 405 or 500, with 405 exactly for non-POST methods and 400/500 exactly when no response value is produced; and on validCreateRequest / checkCollectionInfos that an accepted create request names exactly one well-formed target and exactly one collection specification (wildcard without positions, names within the configured length, RPC channel equal to the source channel) and that validation modifies nothing.",
   note="Assumed: the eight requestHandlers entries return a non-nil response exactly when the error is nil and return response values (dyncall clauses); mapstructure/json/net/http are external (ghost state untouched). The side-effect-freedom of rejects inside MetaCDC.Create (duplicate-detection bookkeeping, revert defer) and checkDuplicateCollection are not yet under contract.",
   design="3 (C19)"),
 "C03": dict(
   text="Deductive proof on the real reader code of the per-channel clock kernel: (1) resetMsgTimestamp sets begin/end/row/position time of a message to the new time and keeps position channel and message id; resetMsgPackTimestamp (four loops with quantified invariants, exact uint64 arithmetic) refuses packs that start later or are empty without touching them, otherwise stamps message i at n+delta_i with 1<=delta_i<=i+1, equal source times staying equal and later ones strictly later, pack begin/end and all start/end positions agreeing with the first/last message; (2) every tsManager function that writes the clock (CollectTS, InitTSInfo, UnsafeUpdateTSInfo, UnsafeUpdatePackTS) never lowers cts, keeps lts<=cts and changes lts only to the tick just sent; (3) handlePack, verified as a whole function (per-return obligations, all five loops with invariants): on every return path the channel's last tick never decreases, the clock never goes back and lts<=cts - i.e. the monotone tick sequence for every interleaving of the serialized critical sections. Finding F7 (a tick-only pack of a lagging stream lowered the tick) was found by the failing obligation handlePack#post[the-last-tick-never-decreases]@return3, reproduced on the real code (ticks 991 then 500) and fixed.",
   note="Assumed at handlePack entry (listed in evidence): clock well-formed with lts<=cts (established by the postconditions of every clock writer), TSO timestamps < 2^62. Private-state rule (DESIGN 10.4): calls through interfaces/function values/other modules made by handlePack are assumed not to re-enter the tsManager writers; static callees that can reach a writer are excluded mechanically. KeyLock is not modelled as a lock invariant: interference between GetMaxTS and LockTargetChannel is covered only by the monotone contracts of the other writers, not by a rely/guarantee proof. Built-in models: msgstream message accessors over the package's message-type universe, sort.Slice as permutation. Not yet proved: the closing message of an emitted pack is a tick carrying lts (needs GetReplicateMsg/append clauses), data messages lie in (previous tick, own tick] (needs the message-loop invariant of C01), clock floor on resume (startInternal). Out of reach: enqueue order vs lock order (SendTargetMsg after unlock), wall-clock tick period.",
   design="3 (C03), 10.4"),
}
na_reason = "contracts for this property are not yet written in this round (see DESIGN.md section 10 for status)"
all_ids = [json.loads(l)["id"] for l in open("properties.jsonl")]
hooks = subprocess.run(["git","-C","/repo","log","--format=%H %s"],capture_output=True,text=True).stdout.strip().split("\n")
hook_commits = [l.split()[0] for l in hooks if l.split(" ",1)[1].startswith("verif:")]
m = {
 "version": 1,
 "setup_cmd": "./setup.sh",
 "hooks": {
   "guard": "verif",
   "enable": "-tags=verif (govc loads /repo packages with this tag; the only hooked files are comment-only zz_contracts_verif.go contract files)",
   "baseline_off_cmd": "for m in core rocksdb server; do (cd /repo/$m && GOFLAGS=-mod=mod go test -json -vet=off -count=1 -timeout 25m ./...); done",
   "source_commits": hook_commits,
   "add_only": True,
 },
 "engines": [{"name":"govc","path":"govc/","serves_properties":sorted(claimed),"kind_free_text":"contract-based deductive verifier for Go written for this task: weakest-precondition style VC generation over go/ssa of /repo's working tree, contracts in //@ comment files (build tag verif), obligations discharged by z3 5.1 / cvc5 1.0 / z3 4.8, counterexamples replayed on the real code with go test -overlay"}],
 "checks": [],
 "not_applicable": [],
 "notes": "All checks: ./check <id> quick|thorough. Exit 0 = every obligation discharged; exit 1 + VIOLATION line = a named obligation failed (replay file carries the solver model and the replay on the real code); exit 2 = broken build/contract (undecided).",
}
for i in all_ids:
    if i in claimed:
        c = claimed[i]
        m["checks"].append({
          "property_id": i, "quick_cmd": f"./check {i} quick", "thorough_cmd": f"./check {i} thorough",
          "evidence_file": f"evidence/{i}.json", "replay_cmd_template": "./check --replay {path}", "engine": "govc",
          "level_claimed": {"category":"proof","text":c["text"],"design_ref":c["design"]},
          "level_note": c["note"],
          "technique": "contract-based deductive verification: SSA->SMT weakest-precondition VCs of the real functions against //@ contracts, discharged by z3/cvc5"})
    else:
        m["not_applicable"].append({"property_id": i, "reason": na_reason})
json.dump(m, open("MANIFEST.json","w"), indent=1)
print("claimed", sorted(claimed), "hooks", len(hook_commits))
