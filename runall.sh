#!/bin/bash
# run every claimed check at the given tier, print one summary line per property
tier=${1:-quick}
cd /verif
for id in $(python3 -c "import json;print(' '.join(sorted(set(c['property_id'] for c in json.load(open('MANIFEST.json'))['checks']))))"); do
  ./check $id $tier 2>&1 | grep "^FAILED\|BROKEN\|VIOLATION\|KNOWN-FINDING\|$tier:" | cut -c1-260
done
