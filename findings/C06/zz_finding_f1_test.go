package reader

// F1 (C06): handlePack returns nil on its error paths; innerHandleReplicateMsg compared the result
// only with api.EmptyMsgPack and dereferenced nil, so one unprocessable pack killed the process.
// In-package test for core/reader:  go test -vet=off -run TestFindingF1 ./reader

import (
	"context"
	"testing"

	"github.com/milvus-io/milvus-proto/go-api/v2/commonpb"
	"github.com/milvus-io/milvus-proto/go-api/v2/msgpb"
	"github.com/milvus-io/milvus/pkg/mq/msgstream"

	"github.com/zilliztech/milvus-cdc/core/api"
	"github.com/zilliztech/milvus-cdc/core/model"
	"github.com/milvus-io/milvus/pkg/util/retry"
	"github.com/sasha-s/go-deadlock"
)

func TestFindingF1_NilPackMustNotPanic(t *testing.T) {
	events := make(chan *api.ReplicateAPIEvent, 4)
	r := &replicateChannelHandler{
		replicateCtx:      context.Background(),
		replicateID:       "f1",
		sourcePChannel:    "src-dml_0",
		targetPChannel:    "tgt-dml_0",
		collectionRecords: map[int64]*model.TargetCollectionInfo{},
		collectionNames:   map[string]*model.HandlerCollectionInfo{},
		isDroppedCollection: func(int64) bool { return false },
		isDroppedPartition:  func(int64) bool { return false },
		apiEventChan:      events,
		handlerOpts:       &model.HandlerOpts{RetryOptions: []retry.Option{retry.Attempts(1)}},
		addCollectionCnt:  new(int),
		addCollectionLock: &deadlock.RWMutex{},
	}
	pack := &msgstream.MsgPack{
		BeginTs: 10, EndTs: 20,
		StartPositions: []*msgstream.MsgPosition{{ChannelName: "src-dml_0_1v0", Timestamp: 10}},
		EndPositions:   []*msgstream.MsgPosition{{ChannelName: "src-dml_0_1v0", Timestamp: 20}},
		Msgs: []msgstream.TsMsg{&msgstream.InsertMsg{
			BaseMsg:       msgstream.BaseMsg{BeginTimestamp: 15, EndTimestamp: 15, HashValues: []uint32{0}},
			InsertRequest: &msgpb.InsertRequest{Base: &commonpb.MsgBase{MsgType: commonpb.MsgType_Insert}, CollectionID: 4711, CollectionName: "unknown", PartitionName: "p"},
		}},
	}
	defer func() {
		if rec := recover(); rec != nil {
			t.Fatalf("C06 violated: an unprocessable pack crashed the handler goroutine: %v", rec)
		}
	}()
	r.innerHandleReplicateMsg(false, api.GetReplicateMsg("src-dml_0", "unknown", 4711, pack, "task-1"))
	select {
	case e := <-events:
		if e.EventType != api.ReplicateError {
			t.Fatalf("expected an error event, got %v", e.EventType)
		}
		// F2: the event must name the owning task, otherwise the server pauses task "" (nobody)
		if e.TaskID != "task-1" {
			t.Fatalf("C06 violated: the error event names task %q, not the owning task %q: no task would be paused", e.TaskID, "task-1")
		}
	default:
		t.Fatalf("no error event was sent")
	}
}
