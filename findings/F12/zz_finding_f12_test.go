package util

import "testing"

// F12 (C15): '_' is both the key separator and a legal identifier character, so two different
// (database, collection) pairs get the same create/drop table key.  A dropped "A_"."B" therefore
// puts a skip horizon on the live collection "A"."_B".
// Place in core/util and run:  go test -vet=off -run TestFindingF12 ./util
func TestFindingF12(t *testing.T) {
	c1, d1 := GetCollectionInfoKeys("_B", "A")
	c2, d2 := GetCollectionInfoKeys("B", "A_")
	if c1 == c2 || d1 == d2 {
		t.Fatalf("FINDING F12 reproduced: (db=A, coll=_B) and (db=A_, coll=B) share keys %q / %q", c1, d1)
	}
}
