package reader

// F7 (C03): a tick-only pack of a stream that lags behind the channel clock (pack.BeginTs <= last tick sent) made
// handlePack emit a closing tick equal to the *source* end time of that pack: the callback handed to
// UnsafeUpdatePackTS assigned generateTS = newPack.EndTs even though resetMsgPackTimestamp had refused to shift
// the (empty) pack, and UnsafeUpdateTSInfo then lowered the channel's last-tick value.  Found by the failing
// obligation  (*replicateChannelHandler).handlePack#post[the-last-tick-never-decreases]@return3.
// In-package test for core/reader:  go test -vet=off -run TestFindingF7 ./reader

import (
	"context"
	"testing"
	"time"

	"github.com/milvus-io/milvus-proto/go-api/v2/commonpb"
	"github.com/milvus-io/milvus-proto/go-api/v2/msgpb"
	"github.com/milvus-io/milvus/pkg/mq/msgstream"
	"github.com/milvus-io/milvus/pkg/util/retry"
	"github.com/sasha-s/go-deadlock"

	"github.com/zilliztech/milvus-cdc/core/api"
	"github.com/zilliztech/milvus-cdc/core/log"
	"github.com/zilliztech/milvus-cdc/core/model"
)

func lastTick(t *testing.T, m *api.ReplicateMsg) uint64 {
	if m == nil || m == api.EmptyMsgPack || m.MsgPack == nil || len(m.MsgPack.Msgs) == 0 {
		t.Fatalf("no pack emitted")
	}
	last := m.MsgPack.Msgs[len(m.MsgPack.Msgs)-1]
	if last.Type() != commonpb.MsgType_TimeTick {
		t.Fatalf("the emitted pack does not end with a time tick")
	}
	return last.BeginTs()
}

func TestFindingF7_TickOnlyPackOfLaggingStreamMustNotLowerTheTick(t *testing.T) {
	deadlock.Opts.Disable = true
	events := make(chan *api.ReplicateAPIEvent, 4)
	r := &replicateChannelHandler{
		replicateCtx:   context.Background(),
		replicateID:    "f7",
		sourcePChannel: "src-dml_0",
		targetPChannel: "tgt-dml_0",
		collectionRecords: map[int64]*model.TargetCollectionInfo{
			1: {CollectionID: 100, CollectionName: "c", PartitionInfo: map[string]int64{"p": 1000}, PChannel: "tgt-dml_0", VChannel: "tgt-dml_0_100v0",
				BarrierChan: model.NewOnceWriteChan(make(chan<- *model.BarrierSignal, 1)), PartitionBarrierChan: map[int64]*model.OnceWriteChan[*model.BarrierSignal]{}},
		},
		collectionNames:     map[string]*model.HandlerCollectionInfo{},
		isDroppedCollection: func(int64) bool { return false },
		isDroppedPartition:  func(int64) bool { return false },
		apiEventChan:        events,
		handlerOpts:         &model.HandlerOpts{RetryOptions: []retry.Option{retry.Attempts(1)}},
		addCollectionCnt:    new(int),
		addCollectionLock:   &deadlock.RWMutex{},
		ttRateLog:           log.NewRateLog(1, log.L()),
	}
	GetTSManager().InitTSInfo("f7", "tgt-dml_0", time.Hour, 0, 8)

	// stream A: a data pack at source time ~1000
	data := &msgstream.MsgPack{
		BeginTs: 990, EndTs: 1000,
		StartPositions: []*msgstream.MsgPosition{{ChannelName: "src-dml_0_1v0", MsgID: []byte{1}, Timestamp: 990}},
		EndPositions:   []*msgstream.MsgPosition{{ChannelName: "src-dml_0_1v0", MsgID: []byte{2}, Timestamp: 1000}},
		Msgs: []msgstream.TsMsg{&msgstream.InsertMsg{
			BaseMsg: msgstream.BaseMsg{BeginTimestamp: 995, EndTimestamp: 995, HashValues: []uint32{0},
				MsgPosition: &msgstream.MsgPosition{ChannelName: "src-dml_0_1v0", MsgID: []byte{2}}},
			InsertRequest: &msgpb.InsertRequest{Base: &commonpb.MsgBase{MsgType: commonpb.MsgType_Insert}, CollectionID: 1, CollectionName: "c", PartitionName: "p",
				Timestamps: []uint64{995}, RowIDs: []int64{7}, NumRows: 1},
		}},
	}
	first := lastTick(t, r.handlePack(false, data, "task-1"))

	// stream B (another collection multiplexed onto the same downstream channel) lags behind: a tick-only pack [490,500]
	tickOnly := &msgstream.MsgPack{
		BeginTs: 490, EndTs: 500,
		StartPositions: []*msgstream.MsgPosition{{ChannelName: "src-dml_0_2v0", MsgID: []byte{3}, Timestamp: 490}},
		EndPositions:   []*msgstream.MsgPosition{{ChannelName: "src-dml_0_2v0", MsgID: []byte{4}, Timestamp: 500}},
	}
	// make the channel due for a tick regardless of wall-clock time
	GetTSManager().InitTSInfo("f7", "tgt-dml_0", 0, 0, 8)
	res := r.handlePack(false, tickOnly, "task-1")
	if res == nil || res == api.EmptyMsgPack {
		t.Skip("no tick was due for the tick-only pack")
	}
	second := lastTick(t, res)
	if second < first {
		t.Fatalf("C03 violated: the closing tick went back from %d to %d on downstream channel tgt-dml_0", first, second)
	}
}
