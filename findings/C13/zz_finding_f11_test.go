package reader

// F22 (C13): the partition consumer that CollectionReader.StartRead registers returned true ("consumed") for a
// partition whose collection its task does NOT replicate.  The dispatcher of the shared EtcdOp (etcd_op.go, the
// subscribePartitionEvent.Range loops) stops at the first consumer that returns true, so with two tasks on one
// source the new partition of task B's collection was swallowed by task A: B never registered the partition
// (AddPartition was not called) and a later drop-partition message for it fails task B.
// Found by the failing obligation  (*CollectionReader).StartRead$1$2#post[an-event-the-task-does-not-select-is-left-to-the-other-tasks].
// In-package test for core/reader:  go test -vet=off -run TestFindingF11 ./reader

import (
	"context"
	"sync"
	"testing"

	"github.com/milvus-io/milvus-proto/go-api/v2/msgpb"

	"github.com/zilliztech/milvus-cdc/core/api"
	"github.com/zilliztech/milvus-cdc/core/config"
	"github.com/zilliztech/milvus-cdc/core/model"
	"github.com/zilliztech/milvus-cdc/core/pb"
)

type f11MetaOp struct {
	api.DefaultMetaOp
	mu        sync.Mutex
	order     []string
	consumers map[string]api.PartitionEventConsumer
}

func (m *f11MetaOp) SubscribeCollectionEvent(string, api.CollectionEventConsumer) {}
func (m *f11MetaOp) SubscribePartitionEvent(taskID string, c api.PartitionEventConsumer) {
	m.mu.Lock()
	defer m.mu.Unlock()
	m.order = append(m.order, taskID)
	m.consumers[taskID] = c
}
func (m *f11MetaOp) WatchCollection(context.Context, api.CollectionFilter) {}
func (m *f11MetaOp) WatchPartition(context.Context, api.PartitionFilter)   {}
func (m *f11MetaOp) StartWatch()                                            {}
func (m *f11MetaOp) GetAllCollection(context.Context, api.CollectionFilter) ([]*pb.CollectionInfo, error) {
	return nil, nil
}
func (m *f11MetaOp) GetAllPartition(context.Context, api.PartitionFilter) ([]*pb.PartitionInfo, error) {
	return nil, nil
}
func (m *f11MetaOp) GetCollectionNameByID(_ context.Context, id int64) string {
	return map[int64]string{1: "coll_a", 2: "coll_b"}[id]
}
func (m *f11MetaOp) GetDatabaseInfoForCollection(context.Context, int64) model.DatabaseInfo {
	return model.DatabaseInfo{ID: 1, Name: "default"}
}

// dispatch offers the event to the subscribers like EtcdOp does: one after the other, stop at the first `true`
func (m *f11MetaOp) dispatch(info *pb.PartitionInfo) {
	for _, id := range m.order {
		if c := m.consumers[id]; c != nil && c(info) {
			return
		}
	}
}

type f11ChannelManager struct {
	api.DefaultChannelManager
	task  string
	added *[]string
}

func (c *f11ChannelManager) AddPartition(_ context.Context, _ *model.DatabaseInfo, coll *pb.CollectionInfo, p *pb.PartitionInfo) error {
	*c.added = append(*c.added, c.task+":"+coll.Schema.Name+"/"+p.PartitionName)
	return nil
}

func TestFindingF11_PartitionEventOfAnotherTasksCollectionMustNotBeSwallowed(t *testing.T) {
	metaOp := &f11MetaOp{consumers: map[string]api.PartitionEventConsumer{}}
	var added []string
	newReader := func(task, collection string) api.Reader {
		r, err := NewCollectionReader(task, &f11ChannelManager{task: task, added: &added}, metaOp,
			map[int64]map[string]*msgpb.MsgPosition{}, map[int64]map[string]uint64{},
			func(_ *model.DatabaseInfo, info *pb.CollectionInfo) (bool, bool) { return false, info.Schema.Name == collection },
			config.ReaderConfig{Retry: config.RetrySettings{RetryTimes: 1, InitBackOff: 1, MaxBackOff: 1}})
		if err != nil {
			t.Fatal(err)
		}
		return r
	}
	a := newReader("task-A", "coll_a")
	b := newReader("task-B", "coll_b")
	a.StartRead(context.Background())
	b.StartRead(context.Background())

	// a new partition of coll_b (replicated by task B only) is created in the source catalog
	metaOp.dispatch(&pb.PartitionInfo{PartitionID: 22, PartitionName: "p_new", CollectionId: 2, State: pb.PartitionState_PartitionCreated})

	if len(added) != 1 || added[0] != "task-B:coll_b/p_new" {
		t.Fatalf("C13 violated: partition p_new of coll_b was not started by task B (AddPartition calls: %v): task A, which does not replicate coll_b, consumed the event", added)
	}
}
