package server

// F10 / F11 / F13 (C18): log statements that hand a whole request, connect parameter or task record to zap.Any
// write the credentials they carry into the log (the process log goes to stdout and /tmp/cdc_log/cdc.log).
//   F10  Create's deferred "fail to create cdc task" logs the raw *CreateRequest on every failed create
//   F11  validCreateRequest logs the Milvus connect parameter (password, token) when the connection test fails
//   F13  ReloadTask logs the stored task record (password, token) when a task cannot be started
// In-package test for server:  go test -vet=off -run TestFindingC18Logs .

import (
	"os"
	"strings"
	"testing"

	"github.com/cockroachdb/errors"
	"github.com/stretchr/testify/mock"

	"github.com/milvus-io/milvus/pkg/util/typeutil"

	"github.com/zilliztech/milvus-cdc/core/log"
	"github.com/zilliztech/milvus-cdc/server/mocks"
	"github.com/zilliztech/milvus-cdc/server/model"
	"github.com/zilliztech/milvus-cdc/server/model/meta"
	"github.com/zilliztech/milvus-cdc/server/model/request"
)

func loggedSince(t *testing.T, off int64) string {
	_ = log.L().Sync()
	b, err := os.ReadFile("/tmp/cdc_log/cdc.log")
	if err != nil {
		t.Skipf("cannot read the log file: %v", err)
	}
	if off > int64(len(b)) {
		off = 0
	}
	return string(b[off:])
}

func logSize() int64 {
	st, err := os.Stat("/tmp/cdc_log/cdc.log")
	if err != nil {
		return 0
	}
	return st.Size()
}

func TestFindingC18Logs_F10_FailedCreateLogsNoSecret(t *testing.T) {
	cdc := &MetaCDC{config: &CDCServerConfig{MaxNameLength: 256}}
	off := logSize()
	_, err := cdc.Create(&request.CreateRequest{
		MilvusConnectParam: model.MilvusConnectParam{Host: "127.0.0.1", Port: 19530, Username: "root", Password: "f10-pw-secret", Token: "f10-token-secret"},
		// no collection info: rejected by validCreateRequest
	})
	if err == nil {
		t.Fatal("the request must be rejected")
	}
	out := loggedSince(t, off)
	for _, s := range []string{"f10-pw-secret", "f10-token-secret"} {
		if strings.Contains(out, s) {
			t.Fatalf("C18 violated: %q was written to the log by the failed create", s)
		}
	}
}

func TestFindingC18Logs_F11_ConnectFailureLogsNoSecret(t *testing.T) {
	cdc := &MetaCDC{config: &CDCServerConfig{MaxNameLength: 256}}
	off := logSize()
	_, err := cdc.Create(&request.CreateRequest{
		MilvusConnectParam: model.MilvusConnectParam{URI: "http://127.0.0.1:1", Username: "root", Password: "f11-pw-secret", Token: "f11-token-secret", ConnectTimeout: 1},
		CollectionInfos:    []model.CollectionInfo{{Name: "foo"}},
	})
	if err == nil {
		t.Fatal("the connection test must fail")
	}
	out := loggedSince(t, off)
	// F10's statement logs the request as well; look at the connect-parameter statement only
	for _, line := range strings.Split(out, "\n") {
		if !strings.Contains(line, "fail to connect the milvus") {
			continue
		}
		for _, s := range []string{"f11-pw-secret", "f11-token-secret"} {
			if strings.Contains(line, s) {
				t.Fatalf("C18 violated: %q was written to the log by the failed connection test", s)
			}
		}
	}
}

func TestFindingC18Logs_F13_ReloadLogsNoSecret(t *testing.T) {
	metaCDC := &MetaCDC{}
	initMetaCDCMap(metaCDC)
	factory := mocks.NewMetaStoreFactory(t)
	store := mocks.NewMetaStore[*meta.TaskInfo](t)
	positionStore := mocks.NewMetaStore[*meta.TaskCollectionPosition](t)
	metaCDC.config = &CDCServerConfig{EnableReverse: false}
	metaCDC.metaStoreFactory = factory
	factory.EXPECT().GetTaskInfoMetaStore(mock.Anything).Return(store)
	factory.EXPECT().GetTaskCollectionPositionMetaStore(mock.Anything).Return(positionStore).Once()
	store.EXPECT().Get(mock.Anything, mock.Anything, mock.Anything).Return([]*meta.TaskInfo{{
		TaskID: "1234", State: meta.TaskStateRunning,
		MilvusConnectParam: model.MilvusConnectParam{Host: "127.0.0.1", Port: 19530, Username: "root", Password: "f13-pw-secret", Token: "f13-token-secret"},
		CollectionInfos:    []model.CollectionInfo{{Name: "foo"}},
	}}, nil).Once()
	positionStore.EXPECT().Get(mock.Anything, mock.Anything, mock.Anything).Return(nil, errors.New("test")).Once()
	metaCDC.replicateEntityMap.Lock()
	metaCDC.replicateEntityMap.data = map[string]*ReplicateEntity{
		"http://127.0.0.1:19530": {entityQuitFunc: func() {}, taskQuitFuncs: typeutil.NewConcurrentMap[string, func()]()},
	}
	metaCDC.replicateEntityMap.Unlock()
	store.EXPECT().Get(mock.Anything, mock.Anything, mock.Anything).Return(nil, errors.New("test")).Once()
	off := logSize()
	metaCDC.ReloadTask()
	out := loggedSince(t, off)
	for _, s := range []string{"f13-pw-secret", "f13-token-secret"} {
		if strings.Contains(out, s) {
			t.Fatalf("C18 violated: %q was written to the log by ReloadTask", s)
		}
	}
}
