package server

// F9 (C18): GetRequestInfo - the text logged for every request ("request receive") - clears the Milvus
// password and token of a create request but not the Kafka SASL password.
// In-package test for server:  go test -vet=off -run TestFindingF9 .

import (
	"strings"
	"testing"

	"github.com/zilliztech/milvus-cdc/server/model"
	"github.com/zilliztech/milvus-cdc/server/model/request"
)

func TestFindingF9_LoggedCreateRequestCarriesNoSecret(t *testing.T) {
	req := &request.CreateRequest{
		KafkaConnectParam: model.KafkaConnectParam{Address: "k:9092", Topic: "t", EnableSASL: true,
			SASL: model.KafkaSASL{Username: "svc", Password: "sasl-secret-123"}},
	}
	info := GetRequestInfo(req)
	if strings.Contains(info, "sasl-secret-123") {
		t.Fatalf("C18 violated: the SASL password is part of the logged request text: %s", info)
	}
	if req.KafkaConnectParam.SASL.Password != "sasl-secret-123" {
		t.Fatalf("GetRequestInfo must not modify the request it describes")
	}
}
