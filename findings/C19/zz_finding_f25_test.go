package server

// Finding F25 (properties C19, C06): the task id of a create request is taken from the caller without any check and
// is used as a metric label (task state gauge).  A task id that is not valid UTF-8 makes prometheus panic inside the
// create handler AFTER the task record was stored: the request gets no JSON answer, and every later start of the
// service panics in ReloadTask on the stored record.
// Found by the failing obligation (*MetaCDC).Create#pre(WithLabelValues)[metric-label-values-are-valid-utf8].
//   go test -vet=off -count=1 -timeout 60s -run '^TestFindingF25' .   (in-package test for server)

import (
	"bytes"
	"context"
	"net/http"
	"net/http/httptest"
	"sort"
	"sync"
	"testing"

	"github.com/goccy/go-json"

	coreapi "github.com/zilliztech/milvus-cdc/core/api"
	serverapi "github.com/zilliztech/milvus-cdc/server/api"
	"github.com/zilliztech/milvus-cdc/server/model/meta"
)

// ---- in-memory meta store double -------------------------------------------

type f25TaskStore struct {
	sync.Mutex
	tasks  map[string]*meta.TaskInfo
	putErr error
}

func (s *f25TaskStore) Put(_ context.Context, obj *meta.TaskInfo, _ any) error {
	s.Lock()
	defer s.Unlock()
	if s.putErr != nil {
		return s.putErr
	}
	s.tasks[obj.TaskID] = obj
	return nil
}

func (s *f25TaskStore) Get(_ context.Context, obj *meta.TaskInfo, _ any) ([]*meta.TaskInfo, error) {
	s.Lock()
	defer s.Unlock()
	var ids []string
	for id := range s.tasks {
		if obj.TaskID == "" || obj.TaskID == id {
			ids = append(ids, id)
		}
	}
	sort.Strings(ids)
	res := make([]*meta.TaskInfo, 0, len(ids))
	for _, id := range ids {
		res = append(res, s.tasks[id])
	}
	return res, nil
}

func (s *f25TaskStore) Delete(_ context.Context, obj *meta.TaskInfo, _ any) error {
	s.Lock()
	defer s.Unlock()
	delete(s.tasks, obj.TaskID)
	return nil
}

type f25PositionStore struct {
	sync.Mutex
	positions []*meta.TaskCollectionPosition
}

func (s *f25PositionStore) Put(_ context.Context, obj *meta.TaskCollectionPosition, _ any) error {
	s.Lock()
	defer s.Unlock()
	s.positions = append(s.positions, obj)
	return nil
}

func (s *f25PositionStore) Get(_ context.Context, obj *meta.TaskCollectionPosition, _ any) ([]*meta.TaskCollectionPosition, error) {
	s.Lock()
	defer s.Unlock()
	var res []*meta.TaskCollectionPosition
	for _, p := range s.positions {
		if obj.TaskID == "" || obj.TaskID == p.TaskID {
			res = append(res, p)
		}
	}
	return res, nil
}

func (s *f25PositionStore) Delete(_ context.Context, obj *meta.TaskCollectionPosition, _ any) error {
	s.Lock()
	defer s.Unlock()
	var keep []*meta.TaskCollectionPosition
	for _, p := range s.positions {
		if p.TaskID != obj.TaskID {
			keep = append(keep, p)
		}
	}
	s.positions = keep
	return nil
}

type f25Factory struct {
	taskStore     *f25TaskStore
	positionStore *f25PositionStore
}

func (f *f25Factory) GetTaskInfoMetaStore(context.Context) serverapi.MetaStore[*meta.TaskInfo] {
	return f.taskStore
}

func (f *f25Factory) GetTaskCollectionPositionMetaStore(context.Context) serverapi.MetaStore[*meta.TaskCollectionPosition] {
	return f.positionStore
}

func (f *f25Factory) GetReplicateStore(context.Context) coreapi.ReplicateStore {
	return nil
}

func (f *f25Factory) Txn(context.Context) (any, func(err error) error, error) {
	return nil, func(err error) error { return err }, nil
}


func TestFindingF25_TaskIDThatIsNotValidUTF8(t *testing.T) {
	_, closeMilvus := NewMockMilvus(t)
	defer closeMilvus()
	factory := &f25Factory{taskStore: &f25TaskStore{tasks: map[string]*meta.TaskInfo{}}, positionStore: &f25PositionStore{}}
	metaCDC := &MetaCDC{
		metaStoreFactory: factory,
		config:           &CDCServerConfig{MaxTaskNum: 10, MaxNameLength: 256, SourceConfig: MilvusSourceConfig{ReplicateChan: "foo"}},
	}
	initMetaCDCMap(metaCDC)
	handler := (&CDCServer{api: metaCDC}).getCDCHandler()

	body := []byte("{\"request_type\":\"create\",\"request_data\":{\"task_id\":\"t\xff\xfe\",\"milvus_connect_param\":{\"host\":\"localhost\",\"port\":50051,\"connect_timeout\":5},\"collection_infos\":[{\"name\":\"gamma\"}],\"rpc_channel_info\":{\"name\":\"foo\"}}}")
	rec := httptest.NewRecorder()
	req := httptest.NewRequest(http.MethodPost, "/cdc", bytes.NewReader(body))
	func() {
		defer func() {
			if r := recover(); r != nil {
				factory.taskStore.Lock()
				n := len(factory.taskStore.tasks)
				factory.taskStore.Unlock()
				t.Fatalf("C19 violated: the create handler panicked: %v (task records left in the store: %d)", r, n)
			}
		}()
		handler.ServeHTTP(rec, req)
	}()
	var resp map[string]any
	if err := json.Unmarshal(rec.Body.Bytes(), &resp); err != nil {
		t.Fatalf("no JSON answer: %q (%v)", rec.Body.String(), err)
	}
	if c, _ := resp["code"].(float64); c != 400 {
		t.Fatalf("want the request rejected with code 400, got %v (%v)", resp["code"], resp["message"])
	}
	factory.taskStore.Lock()
	defer factory.taskStore.Unlock()
	if len(factory.taskStore.tasks) != 0 {
		t.Fatalf("a rejected request left a task record behind")
	}
}
