package server

// Finding F24 (property C19): a request whose "request_type" is not valid UTF-8 panics inside the handler.
// The handler counts every decoded request in a prometheus counter labelled with the caller-supplied request type
// BEFORE it checks the type; the JSON decoder in use keeps invalid UTF-8 bytes of a string as they are, and
// prometheus' WithLabelValues panics on a label value that is not valid UTF-8.  net/http turns the panic into an
// aborted connection: no JSON answer, no 400.
//
// Run (from /repo/server) with an overlay that places this file in the package:
//   go test -vet=off -count=1 -timeout 60s -run '^TestFindingF24' .

import (
	"bytes"
	"net/http"
	"net/http/httptest"
	"testing"

	"github.com/goccy/go-json"
)

func TestFindingF24_InvalidUTF8RequestType(t *testing.T) {
	s := &CDCServer{}
	h := s.getCDCHandler()
	body := []byte("{\"request_type\":\"\xff\xfe\",\"request_data\":{}}")
	rec := httptest.NewRecorder()
	req := httptest.NewRequest(http.MethodPost, "/cdc", bytes.NewReader(body))
	func() {
		defer func() {
			if r := recover(); r != nil {
				t.Fatalf("C19 violated: the handler panicked: %v", r)
			}
		}()
		h.ServeHTTP(rec, req)
	}()
	var resp map[string]any
	if err := json.Unmarshal(rec.Body.Bytes(), &resp); err != nil {
		t.Fatalf("no JSON answer: %q (%v)", rec.Body.String(), err)
	}
	if c, _ := resp["code"].(float64); c != 400 {
		t.Fatalf("want code 400 for an unknown request type, got %v", resp["code"])
	}
}
