package reader

// F8 (C04/C11): after CloseChan is closed (task stopped or paused) the barrier goroutine neither
// exits nor blocks: the closed channel is always ready, so the loop spins and burns a CPU forever.
// In-package test for core/reader:  go test -vet=off -run TestFindingF8 ./reader

import (
	"syscall"
	"testing"
	"time"

	"github.com/milvus-io/milvus/pkg/mq/msgstream"
)

func cpuTime() time.Duration {
	var ru syscall.Rusage
	_ = syscall.Getrusage(syscall.RUSAGE_SELF, &ru)
	return time.Duration(ru.Utime.Nano() + ru.Stime.Nano())
}

func TestFindingF8_ClosedBarrierLeavesNoBusyGoroutine(t *testing.T) {
	fired := make(chan struct{}, 1)
	b := NewBarrier(2, func(msgTs uint64, b *Barrier) { fired <- struct{}{} }, func(string, msgstream.TsMsg) {})
	close(b.CloseChan) // what StopReadCollection does
	time.Sleep(50 * time.Millisecond)
	before := cpuTime()
	time.Sleep(400 * time.Millisecond)
	used := cpuTime() - before
	select {
	case <-fired:
		t.Fatalf("C04 violated: closing the barrier fired the drop callback")
	default:
	}
	if used > 200*time.Millisecond {
		t.Fatalf("C11 violated: %v of CPU burnt in 400ms by the goroutine of a closed barrier (busy background work after stop)", used)
	}
}
