package server

// F15 (C10): at restart ReloadTask rebuilds the duplicate-detection bookkeeping from the stored tasks, but it
// *overwrites* the user-role flag of a target with the flag of each task in turn
// (e.collectionNames.extraInfos[uKey] = taskInfo.ExtraInfo) where the create path accumulates it
// (existing || new).  With two tasks on one target - the first replicating users and roles, the second not - the flag
// of the target is false after the restart, and a third task with enable_user_role is accepted: two tasks replicate
// RBAC to the same target.  Found by the failing obligation
// (*MetaCDC).ReloadTask#inv-step[a-reloaded-user-role-flag-is-never-lost].
// In-package test for server (uses the store double of zz_finding_f14_test.go):
//   go test -vet=off -run TestFindingF15 .

import (
	"strings"
	"testing"

	"github.com/stretchr/testify/assert"
	"github.com/stretchr/testify/require"

	"github.com/zilliztech/milvus-cdc/server/model"
	"github.com/zilliztech/milvus-cdc/server/model/meta"
)

func TestFindingF15_RestartForgetsTheUserRoleOwner(t *testing.T) {
	target := model.MilvusConnectParam{Host: "localhost", Port: 50051, ConnectTimeout: 5}
	stored := func(id, collection string, userRole bool) *meta.TaskInfo {
		return &meta.TaskInfo{
			TaskID:             id,
			MilvusConnectParam: target,
			CollectionInfos:    []model.CollectionInfo{{Name: collection}},
			ExtraInfo:          model.ExtraInfo{EnableUserRole: userRole},
			State:              meta.TaskStatePaused,
			DisableAutoStart:   true,
		}
	}
	factory := &f14Factory{
		taskStore: &f14TaskStore{tasks: map[string]*meta.TaskInfo{
			"task-a": stored("task-a", "alpha", true), // replicates users and roles
			"task-b": stored("task-b", "beta", false),
		}},
		positionStore: &f14PositionStore{},
	}
	metaCDC := &MetaCDC{
		metaStoreFactory: factory,
		config: &CDCServerConfig{
			MaxTaskNum:    10,
			MaxNameLength: 256,
			SourceConfig:  MilvusSourceConfig{ReplicateChan: "foo"},
		},
	}
	initMetaCDCMap(metaCDC)

	// history: the server restarts with the two stored tasks (the store lists them in id order: task-a, task-b)
	metaCDC.ReloadTask()

	uKey := getTaskUniqueIDFromInfo(factory.taskStore.tasks["task-a"])
	metaCDC.collectionNames.RLock()
	flag := metaCDC.collectionNames.extraInfos[uKey].EnableUserRole
	metaCDC.collectionNames.RUnlock()
	assert.True(t, flag, "C10 violated: task-a replicates users and roles to %s, but after the restart the target's user-role flag is free", uKey)

	// consequence: a third task with the user-role flag passes the duplicate detection
	_, err := metaCDC.checkDuplicateCollection(uKey, []string{"default.gamma"}, model.ExtraInfo{EnableUserRole: true}, nil)
	require.Error(t, err, "C10 violated: a second user-role task for %s is accepted while task-a still replicates users and roles", uKey)
	assert.True(t, strings.Contains(err.Error(), "user role"), "unexpected refusal: %v", err)
}
