package server

// F14 (C10, C19): a create request that fails after the duplicate detection accepted it is reverted only partly:
// revertCollectionNames removes the names and exclusions it added, but the user-role flag of the target
// (collectionNames.extraInfos) and the request's name mapping (collectionNames.nameMapping) stay.  A failed
// user-role request therefore blocks every later user-role request for that target ("the enable user role param is
// duplicate") although no task exists.  Found by the failing obligation
// (*MetaCDC).Create#post[a-failed-create-leaves-the-user-role-flag-and-the-name-mapping-as-they-were].
// In-package test for server (store double and HTTP helper adapted from the demonstration of seeded change C19-m1):
//   go test -vet=off -run TestFindingF14 .

import (
	"bytes"
	"context"
	"encoding/json"
	"net/http"
	"net/http/httptest"
	"sort"
	"strings"
	"sync"
	"testing"

	"github.com/cockroachdb/errors"
	"github.com/stretchr/testify/assert"
	"github.com/stretchr/testify/require"

	coreapi "github.com/zilliztech/milvus-cdc/core/api"
	serverapi "github.com/zilliztech/milvus-cdc/server/api"
	"github.com/zilliztech/milvus-cdc/server/model"
	"github.com/zilliztech/milvus-cdc/server/model/meta"
	"github.com/zilliztech/milvus-cdc/server/model/request"
)

// ---- in-memory meta store double -------------------------------------------

type f14TaskStore struct {
	sync.Mutex
	tasks  map[string]*meta.TaskInfo
	putErr error
}

func (s *f14TaskStore) Put(_ context.Context, obj *meta.TaskInfo, _ any) error {
	s.Lock()
	defer s.Unlock()
	if s.putErr != nil {
		return s.putErr
	}
	s.tasks[obj.TaskID] = obj
	return nil
}

func (s *f14TaskStore) Get(_ context.Context, obj *meta.TaskInfo, _ any) ([]*meta.TaskInfo, error) {
	s.Lock()
	defer s.Unlock()
	var ids []string
	for id := range s.tasks {
		if obj.TaskID == "" || obj.TaskID == id {
			ids = append(ids, id)
		}
	}
	sort.Strings(ids)
	res := make([]*meta.TaskInfo, 0, len(ids))
	for _, id := range ids {
		res = append(res, s.tasks[id])
	}
	return res, nil
}

func (s *f14TaskStore) Delete(_ context.Context, obj *meta.TaskInfo, _ any) error {
	s.Lock()
	defer s.Unlock()
	delete(s.tasks, obj.TaskID)
	return nil
}

type f14PositionStore struct {
	sync.Mutex
	positions []*meta.TaskCollectionPosition
}

func (s *f14PositionStore) Put(_ context.Context, obj *meta.TaskCollectionPosition, _ any) error {
	s.Lock()
	defer s.Unlock()
	s.positions = append(s.positions, obj)
	return nil
}

func (s *f14PositionStore) Get(_ context.Context, obj *meta.TaskCollectionPosition, _ any) ([]*meta.TaskCollectionPosition, error) {
	s.Lock()
	defer s.Unlock()
	var res []*meta.TaskCollectionPosition
	for _, p := range s.positions {
		if obj.TaskID == "" || obj.TaskID == p.TaskID {
			res = append(res, p)
		}
	}
	return res, nil
}

func (s *f14PositionStore) Delete(_ context.Context, obj *meta.TaskCollectionPosition, _ any) error {
	s.Lock()
	defer s.Unlock()
	var keep []*meta.TaskCollectionPosition
	for _, p := range s.positions {
		if p.TaskID != obj.TaskID {
			keep = append(keep, p)
		}
	}
	s.positions = keep
	return nil
}

type f14Factory struct {
	taskStore     *f14TaskStore
	positionStore *f14PositionStore
}

func (f *f14Factory) GetTaskInfoMetaStore(context.Context) serverapi.MetaStore[*meta.TaskInfo] {
	return f.taskStore
}

func (f *f14Factory) GetTaskCollectionPositionMetaStore(context.Context) serverapi.MetaStore[*meta.TaskCollectionPosition] {
	return f.positionStore
}

func (f *f14Factory) GetReplicateStore(context.Context) coreapi.ReplicateStore {
	return nil
}

func (f *f14Factory) Txn(context.Context) (any, func(err error) error, error) {
	return nil, func(err error) error { return err }, nil
}

// ---- server snapshot --------------------------------------------------------

type f14Snapshot struct {
	Names       map[string][]string
	Excludes    map[string][]string
	ExtraInfos  map[string]model.ExtraInfo
	NameMapping map[string]map[string]string
	MemTasks    []string
	StoreTasks  []string
	Checkpoints []string
}

func f14SortedCopy(in []string) []string {
	out := append([]string{}, in...)
	sort.Strings(out)
	return out
}

func f14TakeSnapshot(cdc *MetaCDC, f *f14Factory) f14Snapshot {
	s := f14Snapshot{
		Names:       map[string][]string{},
		Excludes:    map[string][]string{},
		ExtraInfos:  map[string]model.ExtraInfo{},
		NameMapping: map[string]map[string]string{},
	}
	cdc.collectionNames.RLock()
	for k, v := range cdc.collectionNames.data {
		if len(v) > 0 {
			s.Names[k] = f14SortedCopy(v)
		}
	}
	for k, v := range cdc.collectionNames.excludeData {
		if len(v) > 0 {
			s.Excludes[k] = f14SortedCopy(v)
		}
	}
	for k, v := range cdc.collectionNames.extraInfos {
		s.ExtraInfos[k] = v
	}
	for k, v := range cdc.collectionNames.nameMapping {
		if len(v) == 0 {
			continue
		}
		m := map[string]string{}
		for a, b := range v {
			m[a] = b
		}
		s.NameMapping[k] = m
	}
	cdc.collectionNames.RUnlock()

	cdc.cdcTasks.RLock()
	for id := range cdc.cdcTasks.data {
		s.MemTasks = append(s.MemTasks, id)
	}
	cdc.cdcTasks.RUnlock()
	s.MemTasks = f14SortedCopy(s.MemTasks)

	f.taskStore.Lock()
	for id := range f.taskStore.tasks {
		s.StoreTasks = append(s.StoreTasks, id)
	}
	f.taskStore.Unlock()
	s.StoreTasks = f14SortedCopy(s.StoreTasks)

	f.positionStore.Lock()
	for _, p := range f.positionStore.positions {
		s.Checkpoints = append(s.Checkpoints, p.TaskID+"/"+p.CollectionName)
	}
	f.positionStore.Unlock()
	s.Checkpoints = f14SortedCopy(s.Checkpoints)
	return s
}

// ---- http helper ------------------------------------------------------------

func f14Post(t *testing.T, handler http.Handler, requestType string, data map[string]any) request.CDCResponse {
	t.Helper()
	body, err := json.Marshal(map[string]any{
		"request_type": requestType,
		"request_data": data,
	})
	require.NoError(t, err)
	recorder := httptest.NewRecorder()
	req := httptest.NewRequest(http.MethodPost, "/cdc", bytes.NewReader(body))
	handler.ServeHTTP(recorder, req)

	var resp request.CDCResponse
	require.NoError(t, json.Unmarshal(recorder.Body.Bytes(), &resp), "the answer must be a JSON document: %q", recorder.Body.String())
	assert.Contains(t, []int{http.StatusOK, http.StatusBadRequest, http.StatusInternalServerError}, resp.Code)
	t.Logf("%s -> code=%d message=%q data=%v", requestType, resp.Code, resp.Message, resp.Data)
	return resp
}


func TestFindingF14_FailedCreateLeavesUserRoleFlagAndNameMapping(t *testing.T) {
	_, closeMilvus := NewMockMilvus(t)
	defer closeMilvus()

	factory := &f14Factory{
		taskStore:     &f14TaskStore{tasks: map[string]*meta.TaskInfo{}},
		positionStore: &f14PositionStore{},
	}
	metaCDC := &MetaCDC{
		metaStoreFactory: factory,
		config: &CDCServerConfig{
			MaxTaskNum:    10,
			MaxNameLength: 256,
			SourceConfig:  MilvusSourceConfig{ReplicateChan: "foo"},
		},
	}
	initMetaCDCMap(metaCDC)
	server := &CDCServer{api: metaCDC}
	handler := server.getCDCHandler()

	create := map[string]any{
		"milvus_connect_param": map[string]any{"host": "localhost", "port": 50051, "connect_timeout": 5},
		"collection_infos":     []any{map[string]any{"name": "gamma"}},
		"rpc_channel_info":     map[string]any{"name": "foo"},
		"extra_info":           map[string]any{"enable_user_role": true},
		"name_mapping": []any{map[string]any{"source_db": "default", "target_db": "default",
			"collection_mapping": map[string]any{"gamma": "gamma_copy"}}},
	}
	before := f14TakeSnapshot(metaCDC, factory)

	// the task store refuses the write: the create request fails after the duplicate detection accepted it
	factory.taskStore.Lock()
	factory.taskStore.putErr = errors.New("injected: task store is down")
	factory.taskStore.Unlock()
	resp := f14Post(t, handler, request.Create, create)
	require.NotEqual(t, http.StatusOK, resp.Code)
	require.Contains(t, resp.Message, "injected: task store is down")

	after := f14TakeSnapshot(metaCDC, factory)
	assert.Equal(t, before.Names, after.Names)
	userRoleStillOwned := false
	for _, v := range after.ExtraInfos {
		userRoleStillOwned = userRoleStillOwned || v.EnableUserRole
	}
	assert.False(t, userRoleStillOwned, "C10/C19 violated: the failed create request still owns the user-role replication of its target: %v", after.ExtraInfos)
	assert.Empty(t, after.NameMapping, "C10/C19 violated: the name mapping of the failed create request is still recorded")

	// consequence: with the store healthy again the very same request is refused, although no task exists
	factory.taskStore.Lock()
	factory.taskStore.putErr = nil
	factory.taskStore.Unlock()
	require.Empty(t, after.StoreTasks)
	metaCDC.collectionNames.RLock()
	_, dupErr := func() ([]string, error) {
		metaCDC.collectionNames.RUnlock()
		return metaCDC.checkDuplicateCollection("http://localhost:50051", []string{"default.gamma"}, model.ExtraInfo{EnableUserRole: true}, nil)
	}()
	if dupErr != nil {
		assert.False(t, strings.Contains(dupErr.Error(), "enable user role"), "C10 violated: a second user-role task is refused (%v) although the first one was never created", dupErr)
	}
}
