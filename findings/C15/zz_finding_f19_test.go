package reader

// Finding F19 (property C15), found by the failing obligations
//   (*EtcdOp).GetAllDroppedObj#inv-step(L2)[drops-if] / [drops-only-if] / [live-if] / [live-only-if]
// of the partition scan: when the downstream is not a Milvus (targetMilvus == nil, e.g. Kafka) the partition loop never
// assigns dbName, so every partition key is built with the database of the LAST collection of the collection scan.
// A dropped partition of db1.c1 is recorded under "db2_c1_p_d": the writer, which looks it up under "db1_c1_p_d", finds
// no skip horizon, and the live db2 gets an entry for a name that has no dropped incarnation there.
//
// Run (from /repo/core), e.g. with an overlay that places this file in core/reader:
//   go test -vet=off -count=1 -timeout 60s -run '^TestFindingF19' ./reader

import (
	"context"
	"encoding/binary"
	"fmt"
	"sort"
	"testing"
	"time"

	"github.com/milvus-io/milvus-proto/go-api/v2/schemapb"
	"github.com/milvus-io/milvus/pkg/util/tsoutil"
	clientv3 "go.etcd.io/etcd/client/v3"
	"google.golang.org/protobuf/proto"

	"github.com/zilliztech/milvus-cdc/core/pb"
	"github.com/zilliztech/milvus-cdc/core/util"
)

type f19KV struct {
	clientv3.KV
	data map[string][]byte
}

func f19NewElem[T any](_ []*T) *T { return new(T) }

func (f *f19KV) Get(_ context.Context, key string, opts ...clientv3.OpOption) (*clientv3.GetResponse, error) {
	op := clientv3.OpGet(key, opts...)
	end := string(op.RangeBytes())
	var keys []string
	for k := range f.data {
		if (end == "" && k == key) || (end != "" && k >= key && k < end) {
			keys = append(keys, k)
		}
	}
	sort.Strings(keys)
	resp := &clientv3.GetResponse{}
	for _, k := range keys {
		kv := f19NewElem(resp.Kvs)
		kv.Key, kv.Value = []byte(k), f.data[k]
		resp.Kvs = append(resp.Kvs, kv)
	}
	resp.Count = int64(len(resp.Kvs))
	return resp, nil
}

func TestFindingF19_PartitionKeysForNonMilvusDownstream(t *testing.T) {
	const root, meta = "by-dev", "meta"
	now := time.Date(2024, 5, 1, 12, 0, 0, 0, time.UTC)
	tt := tsoutil.ComposeTSByTime(now, 0)
	tsOf := func(d time.Duration) uint64 { return tsoutil.ComposeTSByTime(now.Add(d), 0) }
	nowBytes := make([]byte, 8)
	binary.BigEndian.PutUint64(nowBytes, uint64(now.UnixNano()))
	m := func(msg proto.Message) []byte {
		b, err := proto.Marshal(msg)
		if err != nil {
			t.Fatal(err)
		}
		return b
	}
	colKey := func(db, id int64) string { return fmt.Sprintf("%s/%s/%s/%d/%d", root, meta, collectionPrefix, db, id) }
	partKey := func(col, id int64) string { return fmt.Sprintf("%s/%s/%s/%d/%d", root, meta, partitionPrefix, col, id) }
	dbKey := func(id int64) string { return fmt.Sprintf("%s/%s/%s/%d", root, meta, databasePrefix, id) }

	kv := &f19KV{data: map[string][]byte{
		fmt.Sprintf("%s/%s", root, tsPrefix): nowBytes,
		dbKey(7):                           m(&pb.DatabaseInfo{Id: 7, Name: "db1"}),
		dbKey(8):                           m(&pb.DatabaseInfo{Id: 8, Name: "db2"}),
		// two live collections in two databases; etcd returns db1.c1 first, db2.c2 last
		colKey(7, 701): m(&pb.CollectionInfo{ID: 701, Schema: &schemapb.CollectionSchema{Name: "c1"}, CreateTime: tsOf(-3 * time.Hour), State: pb.CollectionState_CollectionCreated}),
		colKey(8, 801): m(&pb.CollectionInfo{ID: 801, Schema: &schemapb.CollectionSchema{Name: "c2"}, CreateTime: tsOf(-2 * time.Hour), State: pb.CollectionState_CollectionCreated}),
		// db1.c1.p was dropped
		partKey(701, 7011): m(&pb.PartitionInfo{PartitionID: 7011, PartitionName: "p", CollectionId: 701, PartitionCreatedTimestamp: tsOf(-170 * time.Minute), State: pb.PartitionState_PartitionDropped}),
	}}
	op := &EtcdOp{rootPath: root, metaSubPath: meta, defaultPartitionName: "_default", etcdClient: &clientv3.Client{KV: kv}} // targetMilvus == nil: downstream is not a Milvus

	got := op.GetAllDroppedObj()
	parts := got[util.DroppedPartitionKey]
	_, want := util.GetPartitionInfoKeys("p", "c1", "db1")
	if h, ok := parts[want]; !ok || h != tt-1 {
		t.Errorf("C15 violated: dropped partition db1.c1.p has no entry under its own name %q (got %d, present=%v, want %d); partition table=%v", want, h, ok, tt-1, parts)
	}
	for k := range parts {
		if k != want {
			t.Errorf("C15 violated: entry %q for a name that has no dropped incarnation; partition table=%v", k, parts)
		}
	}
}
