package writer

// Demonstrations of the routing defects found by failing C09/C08 obligations on the unchanged tree
// (known_findings.json, status fixed).  In-package test for core/writer:
//   go test -vet=off -run TestFindingC09 ./writer

import (
	"context"
	"errors"
	"testing"

	"github.com/milvus-io/milvus-proto/go-api/v2/commonpb"
	"github.com/milvus-io/milvus-proto/go-api/v2/milvuspb"
	"github.com/milvus-io/milvus/pkg/mq/msgstream"

	"github.com/zilliztech/milvus-cdc/core/api"
	"github.com/zilliztech/milvus-cdc/core/config"
)

type recHandler struct {
	api.DefaultDataHandler
	alterDB     []string
	releaseDB   []string
	failRelease bool
	failAlter   bool
}

func (r *recHandler) AlterIndex(ctx context.Context, p *api.AlterIndexParam) error {
	r.alterDB = append(r.alterDB, p.Database)
	if r.failAlter {
		return errors.New("collection not found")
	}
	return nil
}

func (r *recHandler) ReleasePartitions(ctx context.Context, p *api.ReleasePartitionsParam) error {
	r.releaseDB = append(r.releaseDB, p.Database)
	if r.failRelease {
		return errors.New("collection not found")
	}
	return nil
}
func (r *recHandler) DescribeDatabase(ctx context.Context, p *api.DescribeDatabaseParam) error { return nil }
func (r *recHandler) DescribeCollection(ctx context.Context, p *api.DescribeCollectionParam) error {
	return nil
}
func (r *recHandler) DescribePartition(ctx context.Context, p *api.DescribePartitionParam) error { return nil }

func newFindingWriter(h api.DataHandler) *ChannelWriter {
	w := NewChannelWriter(h, nil, config.WriterConfig{MessageBufferSize: 2, Retry: config.RetrySettings{RetryTimes: 1, InitBackOff: 1, MaxBackOff: 1}}, map[string]map[string]uint64{}, "milvus")
	return w.(*ChannelWriter)
}

// F6: alterIndex passed no ReplicateParam.Database, so the handler ran it in the default database.
func TestFindingC09_F6_AlterIndexRoutedToItsDatabase(t *testing.T) {
	h := &recHandler{}
	w := newFindingWriter(h)
	msg := &msgstream.AlterIndexMsg{
		BaseMsg:           msgstream.BaseMsg{BeginTimestamp: 10, EndTimestamp: 10},
		AlterIndexRequest: &milvuspb.AlterIndexRequest{Base: &commonpb.MsgBase{}, DbName: "sales", CollectionName: "orders", IndexName: "idx"},
	}
	err := w.alterIndex(context.Background(), &commonpb.MsgBase{ReplicateInfo: &commonpb.ReplicateInfo{IsReplicate: true, MsgTimestamp: 10}}, msg)
	if err != nil {
		t.Fatal(err)
	}
	if len(h.alterDB) != 1 || h.alterDB[0] != "sales" {
		t.Fatalf("C09 violated: AlterIndex on database %q was routed to database %q (\"\" = default)", "sales", h.alterDB)
	}
}

// F5: releasePartitions routed with the source database instead of the mapped one.
func TestFindingC09_F5_ReleasePartitionsRoutedToMappedDatabase(t *testing.T) {
	h := &recHandler{}
	w := newFindingWriter(h)
	w.UpdateNameMappings(map[string]string{"sales.*": "sales_dr.*"})
	msg := &msgstream.ReleasePartitionsMsg{
		BaseMsg:                  msgstream.BaseMsg{BeginTimestamp: 10, EndTimestamp: 10},
		ReleasePartitionsRequest: &milvuspb.ReleasePartitionsRequest{Base: &commonpb.MsgBase{}, DbName: "sales", CollectionName: "orders", PartitionNames: []string{"p1"}},
	}
	err := w.releasePartitions(context.Background(), &commonpb.MsgBase{ReplicateInfo: &commonpb.ReplicateInfo{IsReplicate: true, MsgTimestamp: 10}}, msg)
	if err != nil {
		t.Fatal(err)
	}
	if len(h.releaseDB) != 1 || h.releaseDB[0] != "sales_dr" {
		t.Fatalf("C09 violated: ReleasePartitions of source database %q (mapped to %q) was routed to %v", "sales", "sales_dr", h.releaseDB)
	}
}

// F21: alterIndex had no skip-on-dropped re-check after a failing downstream call.
func TestFindingC08_F21_AlterIndexOnDroppedCollectionIsSkippedAfterFailure(t *testing.T) {
	h := &recHandler{failAlter: true}
	w := newFindingWriter(h)
	msg := &msgstream.AlterIndexMsg{
		BaseMsg:           msgstream.BaseMsg{BeginTimestamp: 10, EndTimestamp: 10},
		AlterIndexRequest: &milvuspb.AlterIndexRequest{Base: &commonpb.MsgBase{}, DbName: "", CollectionName: "orders", IndexName: "idx"},
	}
	// the collection is known created before the call ...
	w.collectionInfos.Store("default_orders_c", 1)
	hd := &dropDuringCall{recHandler: h, w: w}
	w.dataHandler = hd
	err := w.alterIndex(context.Background(), &commonpb.MsgBase{ReplicateInfo: &commonpb.ReplicateInfo{IsReplicate: true, MsgTimestamp: 10}}, msg)
	if err != nil {
		t.Fatalf("C08 violated: the collection was dropped (recorded at ts 20 >= op ts 10) while the AlterIndex call failed, the op must be skipped, got error: %v", err)
	}
}

// dropDuringCall records a drop of default.orders (as the DDL handler of another channel would) while the call is in flight
type dropDuringCall struct {
	*recHandler
	w *ChannelWriter
}

func (d *dropDuringCall) AlterIndex(ctx context.Context, p *api.AlterIndexParam) error {
	d.w.collectionInfos.Store("default_orders_d", 20)
	d.w.collectionInfos.Store("default_orders_c", 1)
	return d.recHandler.AlterIndex(ctx, p)
}
