package meta

// Demonstrations of the C17 defects found by the failing obligations of
// UpdateTaskDrop{Collection,Partition}Msg / RemoveTaskMsg (see known_findings.json, status fixed).
// In-package test for core/meta:  go test -vet=off -run TestFindingC17 ./meta

import (
	"context"
	"errors"
	"sort"
	"testing"

	"github.com/zilliztech/milvus-cdc/core/api"
)

type memStore struct {
	data    map[string]api.MetaMsg
	failPut bool
}

func (s *memStore) Get(ctx context.Context, key string, withPrefix bool) ([]api.MetaMsg, error) {
	var out []api.MetaMsg
	for k, v := range s.data {
		if !withPrefix && k == key || withPrefix && len(k) >= len(key) && k[:len(key)] == key {
			out = append(out, v)
		}
	}
	return out, nil
}

func (s *memStore) Put(ctx context.Context, key string, value api.MetaMsg) error {
	if s.failPut {
		return errors.New("injected put failure")
	}
	s.data[key] = value
	return nil
}

func (s *memStore) Remove(ctx context.Context, key string) error {
	delete(s.data, key)
	return nil
}

func sorted(xs []string) []string { ys := append([]string{}, xs...); sort.Strings(ys); return ys }

// F3: the merge branch computes the union into a copy; memory keeps the first report only.
func TestFindingC17_F3_MemoryKeepsUnion(t *testing.T) {
	st := &memStore{data: map[string]api.MetaMsg{}}
	r, _ := NewReplicateMetaImpl(st)
	mk := func(ready ...string) api.TaskDropCollectionMsg {
		return api.TaskDropCollectionMsg{Base: api.BaseTaskMsg{TaskID: "t", MsgID: "m", TargetChannels: []string{"a", "b", "c"}, ReadyChannels: ready}}
	}
	for _, ch := range []string{"a", "b"} {
		if _, err := r.UpdateTaskDropCollectionMsg(context.Background(), mk(ch)); err != nil {
			t.Fatal(err)
		}
	}
	mem := sorted(r.dropCollectionMsgs["t"]["m"].Base.ReadyChannels)
	sto := sorted(st.data[GetMetaKey("t", "m")].Base.ReadyChannels)
	if len(mem) != 2 || len(sto) != 2 {
		t.Fatalf("C17 violated: after reports a,b memory has %v, store has %v (must both be the union [a b])", mem, sto)
	}
	ready, _ := r.UpdateTaskDropCollectionMsg(context.Background(), mk("c"))
	if !ready {
		t.Fatalf("C17 violated: all three shards reported but the message is not ready (memory %v)", r.dropCollectionMsgs["t"]["m"].Base.ReadyChannels)
	}
}

// F4: RemoveTaskMsg only removes collection messages from memory.
func TestFindingC17_F4_RemovePartitionMsg(t *testing.T) {
	st := &memStore{data: map[string]api.MetaMsg{}}
	r, _ := NewReplicateMetaImpl(st)
	msg := api.TaskDropPartitionMsg{Base: api.BaseTaskMsg{TaskID: "t", MsgID: "p", TargetChannels: []string{"a"}, ReadyChannels: []string{"a"}}}
	if _, err := r.UpdateTaskDropPartitionMsg(context.Background(), msg); err != nil {
		t.Fatal(err)
	}
	if err := r.RemoveTaskMsg(context.Background(), "t", "p"); err != nil {
		t.Fatal(err)
	}
	if _, ok := r.dropPartitionMsgs["t"]["p"]; ok {
		t.Fatalf("C17 violated: partition drop message removed from the store but still in memory")
	}
}

// F20: a failing store write leaves the message in memory (memory and store disagree).
func TestFindingC17_F20_FailedPutLeavesMemory(t *testing.T) {
	st := &memStore{data: map[string]api.MetaMsg{}, failPut: true}
	r, _ := NewReplicateMetaImpl(st)
	msg := api.TaskDropCollectionMsg{Base: api.BaseTaskMsg{TaskID: "t", MsgID: "m", TargetChannels: []string{"a", "b"}, ReadyChannels: []string{"a"}}}
	if _, err := r.UpdateTaskDropCollectionMsg(context.Background(), msg); err == nil {
		t.Fatal("expected the injected failure")
	}
	if _, ok := r.dropCollectionMsgs["t"]["m"]; ok {
		t.Fatalf("C17 violated: store write failed but the message is recorded in memory")
	}
}
