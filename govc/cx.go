package main

// Translation of contract expressions (CNode) to SMT terms in a program context.

import (
	"fmt"
	"go/constant"
	"go/types"
	"golang.org/x/tools/go/ssa"
	"strings"
)

type Env struct {
	fc       *FnCtx
	g        *Gen
	vars     map[string]Val
	state    *State
	oldState *State
	bound    map[string]Val
	pkg      *types.Package
	depth    int
	visKey   string
	loopPre  *State // loop invariants: the state in which the loop was entered (before(e))
	iterPre  *State // loop invariants: the state at the start of the current iteration (prev(e))
	iterVars map[string]Val // the loop-carried variables as they were at the start of the current iteration
	callSite bool   // a callee's postcondition evaluated at a call site: clauses over the callee's inner states (after()) are skipped
}

type cxError struct{ msg string }

// cxSkip: the clause cannot be interpreted at this place and is left out (sound: an assumption less)
type cxSkip struct{ why string }

func cxFail(format string, a ...any) { panic(cxError{fmt.Sprintf(format, a...)}) }

func (fc *FnCtx) envAt(st *State, extra map[string]Val) *Env {
	e := &Env{fc: fc, g: fc.g, vars: map[string]Val{}, state: st, oldState: fc.entry, bound: map[string]Val{}}
	if fc.fn.Pkg != nil {
		e.pkg = fc.fn.Pkg.Pkg
	} else if fc.fn.Parent() != nil && fc.fn.Parent().Pkg != nil {
		e.pkg = fc.fn.Parent().Pkg.Pkg
	}
	for k, v := range fc.params {
		e.vars[k] = v
	}
	for k, v := range extra {
		e.vars[k] = v
	}
	return e
}

func (e *Env) sub() *Env {
	n := *e
	n.bound = map[string]Val{}
	for k, v := range e.bound {
		n.bound[k] = v
	}
	n.vars = map[string]Val{}
	for k, v := range e.vars {
		n.vars[k] = v
	}
	return &n
}

func (e *Env) boolExpr(n *CNode) string {
	v := e.expr(n)
	return v.t
}

func (e *Env) sortOfVal(v Val) string {
	if v.ty != nil {
		return e.g.sortOf(v.ty)
	}
	if v.gs != "" {
		return v.gs
	}
	return "Int"
}

var tInt = types.Typ[types.Int]
var tBool = types.Typ[types.Bool]
var tString = types.Typ[types.String]

// mathInt is the type of contract-level integers (unbounded).
var tMath = types.Typ[types.UntypedInt]

// typeArgName: a type given as an identifier / selector, or as a string literal ("*pkg.T", "[]T").
func typeArgName(n *CNode) string {
	if n.Kind == "str" {
		return n.Name
	}
	return n.String()
}

// tryResolveType: resolveType without failing the contract (nil when the name is not a type).
func (e *Env) tryResolveType(name string) (T types.Type) {
	defer func() {
		if r := recover(); r != nil {
			T = nil
		}
	}()
	T, _ = e.resolveType(name)
	return T
}

func (e *Env) resolveType(name string) (types.Type, string) {
	switch name {
	case "int", "int64", "int32", "uint64", "uint32", "uint", "uint8", "byte", "int8", "int16", "uint16":
		return types.Universe.Lookup(name).Type(), "Int"
	case "mathint":
		return tMath, "Int"
	case "string":
		return tString, "String"
	case "bool":
		return tBool, "Bool"
	case "ref":
		return types.NewPointer(types.NewStruct(nil, nil)), "Int"
	case "error", "any":
		T := types.Universe.Lookup(name).Type()
		return T, "Iface"
	case "struct{}":
		T := types.NewStruct(nil, nil)
		return T, e.g.sortOf(T)
	}
	if strings.HasPrefix(name, "map[") {
		depth := 0
		for i := 3; i < len(name); i++ {
			if name[i] == '[' {
				depth++
			} else if name[i] == ']' {
				depth--
				if depth == 0 {
					K, _ := e.resolveType(name[4:i])
					V, _ := e.resolveType(name[i+1:])
					mt := types.NewMap(K, V)
					return mt, e.g.sortOf(mt)
				}
			}
		}
	}
	if strings.HasPrefix(name, "[]") {
		T, _ := e.resolveType(name[2:])
		st := types.NewSlice(T)
		return st, "Slice"
	}
	ptr := 0
	for strings.HasPrefix(name, "*") {
		name = name[1:]
		ptr++
	}
	var T types.Type
	if i := strings.Index(name, "."); i >= 0 {
		pk, nm := name[:i], name[i+1:]
		best := -1
		for _, imp := range e.pkg.Imports() {
			if imp.Name() == pk {
				if o := imp.Scope().Lookup(nm); o != nil {
					if _, isType := o.(*types.TypeName); isType {
						// several imported packages may share a name (core/model, server/model): prefer the
						// one closest to the contract's own package
						if c := commonPrefix(imp.Path(), e.pkg.Path()); c > best {
							best = c
							T = o.Type()
						}
					}
				}
			}
		}
		if T == nil {
			// not imported by the contract's package: look through everything the loaded packages import
			if p := e.g.ld.pkgByNameWith(pk, nm); p != nil {
				if o := p.Scope().Lookup(nm); o != nil {
					T = o.Type()
				}
			}
		}
	} else if e.pkg != nil {
		if o := e.pkg.Scope().Lookup(name); o != nil {
			T = o.Type()
		}
	}
	if T == nil {
		cxFail("unknown type %s", name)
	}
	for ; ptr > 0; ptr-- {
		T = types.NewPointer(T)
	}
	return T, e.g.sortOf(T)
}

func (e *Env) lookupPkgObj(pkg *types.Package, name string) (Val, bool) {
	o := pkg.Scope().Lookup(name)
	if o == nil {
		return Val{}, false
	}
	if c, ok := o.(*types.Const); ok {
		return e.constToVal(c.Val(), c.Type()), true
	}
	if v, ok := o.(*types.Var); ok && e.fc != nil {
		// a package-level variable: its value in the state the expression is evaluated in
		if sp := e.g.ld.prog.Package(pkg); sp != nil {
			if gl, ok := sp.Members[name].(*ssa.Global); ok {
				if c, ok := e.g.ld.constGlobal(gl); ok {
					return Val{t: e.fc.constVal(c).t, ty: v.Type()}, true
				}
				addr := e.fc.term(gl)
				saved := e.fc.cur
				e.fc.cur = e.state
				t := e.fc.loadWhole(addr.t, v.Type())
				e.fc.cur = saved
				return Val{t: t, ty: v.Type()}, true
			}
		}
	}
	return Val{}, false
}

func (e *Env) constToVal(cv constant.Value, t types.Type) Val {
	switch cv.Kind() {
	case constant.Bool:
		return Val{t: fmt.Sprint(constant.BoolVal(cv)), ty: t}
	case constant.String:
		return Val{t: smtString(constant.StringVal(cv)), ty: t}
	case constant.Int:
		s := cv.ExactString()
		if strings.HasPrefix(s, "-") {
			s = "(- " + s[1:] + ")"
		}
		return Val{t: s, ty: t}
	}
	cxFail("unsupported constant kind")
	return Val{}
}

func (e *Env) ident(name string) Val {
	if v, ok := e.bound[name]; ok {
		return v
	}
	if v, ok := e.vars[name]; ok {
		return v
	}
	if gv, ok := e.g.cs.Ghosts[name]; ok {
		return e.ghostVal(gv)
	}
	// local variables that live in memory (captured by closures / address taken)
	for c := e.fc; c != nil; c = c.parent {
		if al, ok := c.named[name]; ok {
			if cv, ok := e.g.constVal[al]; ok {
				// a write-once variable: the same value in every state
				return Val{t: cv.t, ty: al.Type().Underlying().(*types.Pointer).Elem(), tuple: cv.tuple}
			}
			if v, ok := c.vals[al]; ok {
				T := al.Type().Underlying().(*types.Pointer).Elem()
				saved := c.cur
				c.cur = e.state
				t := c.loadWhole(v.t, T)
				c.cur = saved
				return Val{t: t, ty: T}
			}
		}
	}
	// plain locals by their source name (last value bound so far)
	for c := e.fc; c != nil; c = c.parent {
		if v, ok := c.debugNames[name]; ok && v.tuple == nil {
			if c.usedLocals != nil {
				c.usedLocals[name] = true
			}
			return v
		}
	}
	if e.pkg != nil {
		if v, ok := e.lookupPkgObj(e.pkg, name); ok {
			return v
		}
	}
	cxFail("unknown identifier %s", name)
	return Val{}
}

// ghost variables -------------------------------------------------------------

func (e *Env) ghostType(ts string) Val {
	ts = strings.TrimSpace(ts)
	if strings.HasPrefix(ts, "seq[") && strings.HasSuffix(ts, "]") {
		et, es := e.resolveType(ts[4 : len(ts)-1])
		return Val{gk: "seq", ge: et, gs: e.g.seqSort(es)}
	}
	if strings.HasPrefix(ts, "set[") && strings.HasSuffix(ts, "]") {
		et, es := e.resolveType(ts[4 : len(ts)-1])
		return Val{gk: "set", ge: et, gs: "(Array " + es + " Bool)"}
	}
	if strings.HasPrefix(ts, "map[") {
		i := strings.Index(ts, "]")
		kt, ks := e.resolveType(ts[4:i])
		rest := ts[i+1:]
		inner := e.ghostType(rest)
		vs := inner.gs
		if inner.gk == "" {
			vs = e.g.sortOf(inner.ty)
		}
		return Val{gk: "gmap", gkt: kt, ge: inner.ty, gs: "(Array " + ks + " " + vs + ")", tuple: []Val{inner}}
	}
	T, _ := e.resolveType(ts)
	return Val{ty: T}
}

func (g *Gen) seqSort(es string) string {
	name := "|Seq!" + sanitize(es) + "|"
	if !g.declared[name] {
		g.declared[name] = true
		g.sorts.emit(fmt.Sprintf("(declare-datatypes ((%s 0)) (((|mk%s (|len%s Int) (|arr%s (Array Int %s))))))", name, name[1:], name[1:], name[1:], es))
	}
	return name
}

func seqFns(sort string) (mk, ln, ar string) {
	return "|mk" + sort[1:], "|len" + sort[1:], "|arr" + sort[1:]
}

func (e *Env) ghostVal(gv *GhostVar) Val {
	e2 := *e
	if p := e.g.ld.typesPkg(gv.Pkg); p != nil {
		e2.pkg = p
	}
	proto := e2.ghostType(gv.Type)
	key := "G|" + gv.Name
	srt := proto.gs
	if proto.gk == "" {
		srt = e.g.sortOf(proto.ty)
	}
	if _, known := e.g.keys[key]; !known {
		e.g.regKey(key, srt, "ghost")
		if strings.HasPrefix(srt, "|Seq!") {
			// every version of a ghost sequence has a non-negative length (heapBound)
			ki := e.g.keys[key]
			ki.ref = "seq"
			e.g.keys[key] = ki
		}
	}
	proto.t = e.g.get(e.state, key)
	return proto
}

// expressions -------------------------------------------------------------------

func (e *Env) expr(n *CNode) Val {
	g := e.g
	switch n.Kind {
	case "int":
		return Val{t: n.Name, ty: tMath}
	case "bool":
		return Val{t: n.Name, ty: tBool}
	case "str":
		return Val{t: smtString(n.Name), ty: tString}
	case "nil":
		return Val{t: "0", ty: types.Typ[types.UntypedNil]}
	case "ident":
		return e.ident(n.Name)
	case "old":
		if e.oldState == nil {
			cxFail("old() not available here")
		}
		n2 := *e
		n2.state = e.oldState
		return n2.expr(n.Args[0])
	case "un":
		v := e.expr(n.Args[0])
		if n.Op == "!" {
			return Val{t: "(not " + v.t + ")", ty: tBool}
		}
		return Val{t: "(- " + v.t + ")", ty: tMath}
	case "bin":
		return e.binary(n)
	case "quant":
		s := e.sub()
		var bs []string
		for i, vn := range n.Vars {
			T, srt := s.resolveType(n.Types[i])
			nm := "|q!" + vn + "|"
			s.bound[vn] = Val{t: nm, ty: T}
			bs = append(bs, fmt.Sprintf("(%s %s)", nm, srt))
		}
		body := s.expr(n.Args[0])
		if len(n.Trigs) > 0 {
			pats := ""
			for _, grp := range n.Trigs {
				var ts []string
				for _, t := range grp {
					ts = append(ts, g.atomize(s.expr(t).t))
				}
				pats += " :pattern (" + strings.Join(ts, " ") + ")"
			}
			return Val{t: fmt.Sprintf("(%s (%s) (! %s%s))", n.Op, strings.Join(bs, " "), body.t, pats), ty: tBool}
		}
		return Val{t: fmt.Sprintf("(%s (%s) %s)", n.Op, strings.Join(bs, " "), body.t), ty: tBool}
	case "field":
		return e.field(n)
	case "index":
		return e.index(n)
	case "call":
		return e.call(n)
	case "seqlit":
		cxFail("sequence literal only allowed on the right of ++")
	}
	cxFail("unsupported contract expression %s", n.String())
	_ = g
	return Val{}
}

func isNilVal(v Val) bool {
	b, ok := v.ty.(*types.Basic)
	return ok && b.Kind() == types.UntypedNil
}

func (e *Env) eq(a, b Val) string {
	if isNilVal(b) {
		a, b = b, a
	}
	if isNilVal(a) {
		if b.ty != nil {
			switch b.ty.Underlying().(type) {
			case *types.Slice:
				return fmt.Sprintf("(= (sarr %s) 0)", b.t)
			case *types.Interface:
				return fmt.Sprintf("(= (itag %s) 0)", b.t)
			}
		}
		return fmt.Sprintf("(= %s 0)", b.t)
	}
	return fmt.Sprintf("(= %s %s)", a.t, b.t)
}

func (e *Env) binary(n *CNode) Val {
	if n.Op == "++" {
		return e.seqAppend(n)
	}
	if n.Op == "in" {
		k := e.expr(n.Args[0])
		m := e.expr(n.Args[1])
		if m.gk == "set" || m.gk == "gmap" {
			return Val{t: fmt.Sprintf("(select %s %s)", m.t, k.t), ty: tBool}
		}
		mt, ok := m.ty.Underlying().(*types.Map)
		if !ok {
			cxFail("'in' needs a map or set: %s", n.String())
		}
		kd, _ := e.g.mapKeys(mt)
		return Val{t: fmt.Sprintf("(and (not (= %s 0)) (select (select %s %s) %s))", m.t, e.g.get(e.state, kd), m.t, k.t), ty: tBool}
	}
	a := e.expr(n.Args[0])
	b := e.expr(n.Args[1])
	switch n.Op {
	case "&&":
		return Val{t: fmt.Sprintf("(and %s %s)", a.t, b.t), ty: tBool}
	case "||":
		return Val{t: fmt.Sprintf("(or %s %s)", a.t, b.t), ty: tBool}
	case "==>":
		return Val{t: fmt.Sprintf("(=> %s %s)", a.t, b.t), ty: tBool}
	case "<==>":
		return Val{t: fmt.Sprintf("(= %s %s)", a.t, b.t), ty: tBool}
	case "==":
		return Val{t: e.eq(a, b), ty: tBool}
	case "!=":
		return Val{t: "(not " + e.eq(a, b) + ")", ty: tBool}
	case "<", "<=", ">", ">=":
		if a.ty != nil && e.g.sortOf(a.ty) == "String" {
			switch n.Op {
			case "<":
				return Val{t: fmt.Sprintf("(str.< %s %s)", a.t, b.t), ty: tBool}
			case "<=":
				return Val{t: fmt.Sprintf("(str.<= %s %s)", a.t, b.t), ty: tBool}
			case ">":
				return Val{t: fmt.Sprintf("(str.< %s %s)", b.t, a.t), ty: tBool}
			default:
				return Val{t: fmt.Sprintf("(str.<= %s %s)", b.t, a.t), ty: tBool}
			}
		}
		return Val{t: fmt.Sprintf("(%s %s %s)", n.Op, a.t, b.t), ty: tBool}
	case "+":
		if a.ty != nil && e.g.sortOf(a.ty) == "String" {
			return Val{t: fmt.Sprintf("(str.++ %s %s)", a.t, b.t), ty: tString}
		}
		return Val{t: fmt.Sprintf("(+ %s %s)", a.t, b.t), ty: tMath}
	case "-":
		return Val{t: fmt.Sprintf("(- %s %s)", a.t, b.t), ty: tMath}
	case "*":
		return Val{t: fmt.Sprintf("(* %s %s)", a.t, b.t), ty: tMath}
	case "/":
		return Val{t: fmt.Sprintf("(div %s %s)", a.t, b.t), ty: tMath}
	case "%":
		return Val{t: fmt.Sprintf("(mod %s %s)", a.t, b.t), ty: tMath}
	}
	cxFail("unsupported operator %s", n.Op)
	return Val{}
}

func (e *Env) seqAppend(n *CNode) Val {
	a := e.expr(n.Args[0])
	if a.gk != "seq" {
		cxFail("++ needs a ghost sequence on the left: %s", n.String())
	}
	r := n.Args[1]
	if r.Kind != "seqlit" {
		cxFail("++ needs a sequence literal on the right: %s", n.String())
	}
	mk, ln, ar := seqFns(a.gs)
	arr := fmt.Sprintf("(%s %s)", ar, a.t)
	l := fmt.Sprintf("(%s %s)", ln, a.t)
	for i, el := range r.Args {
		v := e.expr(el)
		arr = fmt.Sprintf("(store %s (+ %s %d) %s)", arr, l, i, v.t)
	}
	out := a
	out.t = fmt.Sprintf("(%s (+ %s %d) %s)", mk, l, len(r.Args), arr)
	return out
}

func (e *Env) fieldOf(base Val, name string) Val {
	g := e.g
	if base.ty == nil {
		cxFail("field %s of ghost value", name)
	}
	T := base.ty
	isPtr := false
	if p, ok := T.Underlying().(*types.Pointer); ok {
		T = p.Elem()
		isPtr = true
	}
	st, ok := T.Underlying().(*types.Struct)
	if !ok {
		cxFail("field %s of non-struct %s", name, T)
	}
	obj, idxs, _ := types.LookupFieldOrMethod(T, true, e.pkgFor(T), name)
	if obj == nil {
		// unexported field of another package: search manually
		for i := 0; i < st.NumFields(); i++ {
			if st.Field(i).Name() == name {
				idxs = []int{i}
				obj = st.Field(i)
			}
		}
	}
	fv, isVar := obj.(*types.Var)
	if obj == nil || !isVar || !fv.IsField() {
		cxFail("no field %s in %s", name, T)
	}
	cur := base
	curT := T
	curPtr := isPtr
	for _, ix := range idxs {
		cst := curT.Underlying().(*types.Struct)
		ft := cst.Field(ix).Type()
		var t string
		if curPtr {
			k := g.fieldKey(curT, ix)
			t = fmt.Sprintf("(select %s %s)", g.get(e.state, k), cur.t)
		} else {
			t = fmt.Sprintf("(%s %s)", g.sorts.structSel(curT, ix), cur.t)
		}
		cur = Val{t: t, ty: ft}
		curT = ft
		curPtr = false
		if p, ok := ft.Underlying().(*types.Pointer); ok {
			curT = p.Elem()
			curPtr = true
		}
	}
	return cur
}

func (e *Env) pkgFor(T types.Type) *types.Package {
	if n, ok := T.(*types.Named); ok && n.Obj().Pkg() != nil {
		return n.Obj().Pkg()
	}
	return e.pkg
}

func (e *Env) field(n *CNode) Val {
	// pkg.Const ?
	if n.Args[0].Kind == "ident" {
		nm := n.Args[0].Name
		_, isVar := e.vars[nm]
		_, isB := e.bound[nm]
		if !isVar && !isB && e.pkg != nil {
			found := false
			for _, imp := range e.pkg.Imports() {
				if imp.Name() == nm {
					found = true
					if v, ok := e.lookupPkgObj(imp, n.Name); ok {
						return v
					}
				}
			}
			if p := e.g.ld.pkgByNameWith(nm, n.Name); p != nil {
				if v, ok := e.lookupPkgObj(p, n.Name); ok {
					return v
				}
			}
			if found {
				cxFail("unknown %s.%s", nm, n.Name)
			}
		}
	}
	base := e.expr(n.Args[0])
	// address-of a value-typed field: x.f& is spelled addr(x.f); handled in call
	return e.fieldOf(base, n.Name)
}

func (e *Env) index(n *CNode) Val {
	g := e.g
	b := e.expr(n.Args[0])
	i := e.expr(n.Args[1])
	switch b.gk {
	case "seq":
		_, _, ar := seqFns(b.gs)
		return Val{t: fmt.Sprintf("(select (%s %s) %s)", ar, b.t, i.t), ty: b.ge}
	case "gmap":
		if len(b.tuple) == 1 && b.tuple[0].gk != "" {
			r := b.tuple[0]
			r.t = fmt.Sprintf("(select %s %s)", b.t, i.t)
			return r
		}
		return Val{t: fmt.Sprintf("(select %s %s)", b.t, i.t), ty: b.ge}
	case "set":
		return Val{t: fmt.Sprintf("(select %s %s)", b.t, i.t), ty: tBool}
	}
	switch u := b.ty.Underlying().(type) {
	case *types.Slice:
		k := g.arrKey(u.Elem())
		return Val{t: fmt.Sprintf("(select (select %s (sarr %s)) (|ix| (soff %s) %s))", g.get(e.state, k), b.t, b.t, i.t), ty: u.Elem()}
	case *types.Map:
		_, kv := g.mapKeys(u)
		kd, _ := g.mapKeys(u)
		return Val{t: fmt.Sprintf("(ite (and (not (= %s 0)) (select (select %s %s) %s)) (select (select %s %s) %s) %s)", b.t, g.get(e.state, kd), b.t, i.t, g.get(e.state, kv), b.t, i.t, g.sorts.zero(u.Elem())), ty: u.Elem()}
	case *types.Array:
		return Val{t: fmt.Sprintf("(select %s %s)", b.t, i.t), ty: u.Elem()}
	case *types.Basic:
		return Val{t: fmt.Sprintf("(str.to_code (str.at %s %s))", b.t, i.t), ty: tMath}
	}
	cxFail("cannot index %s", n.Args[0].String())
	return Val{}
}

func (e *Env) call(n *CNode) Val {
	g := e.g
	args := func() []Val {
		var vs []Val
		for _, a := range n.Args {
			vs = append(vs, e.expr(a))
		}
		return vs
	}
	switch n.Name {
	case "len":
		v := e.expr(n.Args[0])
		if v.gk == "seq" {
			_, ln, _ := seqFns(v.gs)
			return Val{t: fmt.Sprintf("(%s %s)", ln, v.t), ty: tMath}
		}
		switch u := v.ty.Underlying().(type) {
		case *types.Slice:
			return Val{t: fmt.Sprintf("(slen %s)", v.t), ty: tMath}
		case *types.Basic:
			return Val{t: fmt.Sprintf("(str.len %s)", v.t), ty: tMath}
		case *types.Map:
			kd, _ := g.mapKeys(u)
			fn := g.cardFn(g.sortOf(u.Key()))
			return Val{t: fmt.Sprintf("(ite (= %s 0) 0 (%s (select %s %s)))", v.t, fn, g.get(e.state, kd), v.t), ty: tMath}
		case *types.Array:
			return Val{t: fmt.Sprint(u.Len()), ty: tMath}
		}
		cxFail("len of %s", n.Args[0].String())
	case "cap":
		v := e.expr(n.Args[0])
		return Val{t: fmt.Sprintf("(scap %s)", v.t), ty: tMath}
	case "ite":
		a := args()
		r := a[1]
		r.t = fmt.Sprintf("(ite %s %s %s)", a[0].t, a[1].t, a[2].t)
		return r
	case "contains":
		a := args()
		return Val{t: fmt.Sprintf("(str.contains %s %s)", a[0].t, a[1].t), ty: tBool}
	case "hasPrefix":
		a := args()
		return Val{t: fmt.Sprintf("(str.prefixof %s %s)", a[1].t, a[0].t), ty: tBool}
	case "hasSuffix":
		a := args()
		return Val{t: fmt.Sprintf("(str.suffixof %s %s)", a[1].t, a[0].t), ty: tBool}
	case "indexOf":
		a := args()
		return Val{t: fmt.Sprintf("(str.indexof %s %s 0)", a[0].t, a[1].t), ty: tMath}
	case "substr":
		a := args()
		return Val{t: fmt.Sprintf("(str.substr %s %s %s)", a[0].t, a[1].t, a[2].t), ty: tString}
	case "itoa":
		a := args()
		return Val{t: fmt.Sprintf("(ite (>= %s 0) (str.from_int %s) (str.++ \"-\" (str.from_int (- %s))))", a[0].t, a[0].t, a[0].t), ty: tString}
	case "wrapInt", "wrap64":
		a := args()
		return Val{t: wrapInt(tInt, a[0].t), ty: tMath}
	case "wrapU64":
		a := args()
		return Val{t: wrapInt(types.Typ[types.Uint64], a[0].t), ty: tMath}
	case "locked", "rlocked":
		// locked(x.lock): the lock field `lock` of *x is held (write mode / at least read mode)
		if len(n.Args) == 1 && n.Args[0].Kind == "field" {
			base := e.expr(n.Args[0].Args[0])
			T := base.ty
			if p, ok := T.Underlying().(*types.Pointer); ok {
				T = p.Elem()
			}
			st := T.Underlying().(*types.Struct)
			for i := 0; i < st.NumFields(); i++ {
				if st.Field(i).Name() == n.Args[0].Name {
					lk := g.lockKey(T, i)
					need := "2"
					if n.Name == "rlocked" {
						need = "1"
					}
					return Val{t: fmt.Sprintf("(>= (select %s %s) %s)", g.get(e.state, lk), base.t, need), ty: tBool}
				}
			}
		}
		cxFail("locked() needs a lock field expression")
	case "mapSet":
		a := args()
		r := a[0]
		r.t = fmt.Sprintf("(store %s %s %s)", a[0].t, a[1].t, a[2].t)
		return r
	case "setAdd":
		a := args()
		r := a[0]
		r.t = fmt.Sprintf("(store %s %s true)", a[0].t, a[1].t)
		return r
	case "setDel":
		a := args()
		r := a[0]
		r.t = fmt.Sprintf("(store %s %s false)", a[0].t, a[1].t)
		return r
	case "setOf":
		// setOf(s): the set of elements of slice s (uninterpreted in the slice value and the
		// current contents of its element heap; facts come from trusted contracts only)
		v := e.expr(n.Args[0])
		st, ok := v.ty.Underlying().(*types.Slice)
		if !ok {
			cxFail("setOf needs a slice: %s has type %v", n.Args[0].String(), v.ty)
		}
		es := g.sortOf(st.Elem())
		k := g.arrKey(st.Elem())
		fn := "|setOf!" + sanitize(es) + "|"
		g.declareFun(fn, "(Slice (Array Int "+es+")) (Array "+es+" Bool)")
		return Val{t: fmt.Sprintf("(%s %s (select %s (sarr %s)))", fn, v.t, g.get(e.state, k), v.t), gk: "set", ge: st.Elem(), gs: "(Array " + es + " Bool)"}
	case "atomicGet":
		// atomicGet(x.f): ghost value of the atomic box stored by value in field f of *x
		if len(n.Args) != 1 || n.Args[0].Kind != "field" {
			cxFail("atomicGet needs a field expression")
		}
		base := e.expr(n.Args[0].Args[0])
		T := base.ty
		if p, ok := T.Underlying().(*types.Pointer); ok {
			T = p.Elem()
		}
		st := T.Underlying().(*types.Struct)
		for i := 0; i < st.NumFields(); i++ {
			if st.Field(i).Name() == n.Args[0].Name {
				g.regKey("G|$atomicInt", "(Array Int Int)", "umap")
				return Val{t: fmt.Sprintf("(select %s %s)", g.get(e.state, "G|$atomicInt"), e.fc.interiorTerm(base.t, T, i)), ty: tMath}
			}
		}
		cxFail("atomicGet: no such field")
	case "cmHas", "cmGet":
		// ghost content of a *typeutil.ConcurrentMap[K,V] (pointer-typed): cmHas(m, k), cmGet(m, k)
		mv := e.expr(n.Args[0])
		pt, ok := mv.ty.Underlying().(*types.Pointer)
		if !ok {
			cxFail("%s needs a pointer to a ConcurrentMap", n.Name)
		}
		mt, ok := pt.Elem().(*types.Named)
		if !ok || mt.TypeArgs().Len() != 2 {
			cxFail("%s: not a ConcurrentMap", n.Name)
		}
		K, V := mt.TypeArgs().At(0), mt.TypeArgs().At(1)
		kd, kv := g.umapKeys(K, V)
		k := e.expr(n.Args[1])
		if n.Name == "cmHas" {
			return Val{t: fmt.Sprintf("(select (select %s %s) %s)", g.get(e.state, kd), mv.t, k.t), ty: tBool}
		}
		return Val{t: fmt.Sprintf("(select (select %s %s) %s)", g.get(e.state, kv), mv.t, k.t), ty: V}
	case "umHas", "umGet", "umDom", "umVals":
		// ghost content of a core/util.Map[K,V] field: umHas(x.f, k), umGet(x.f, k), umDom(x.f), umVals(x.f)
		if len(n.Args) < 1 || n.Args[0].Kind != "field" {
			cxFail("%s needs a field expression of type util.Map", n.Name)
		}
		base := e.expr(n.Args[0].Args[0])
		T := base.ty
		if p, ok := T.Underlying().(*types.Pointer); ok {
			T = p.Elem()
		}
		st := T.Underlying().(*types.Struct)
		for i := 0; i < st.NumFields(); i++ {
			if st.Field(i).Name() != n.Args[0].Name {
				continue
			}
			mt, ok := st.Field(i).Type().(*types.Named)
			if !ok || mt.TypeArgs().Len() != 2 {
				cxFail("%s: field is not a util.Map", n.Name)
			}
			K, V := mt.TypeArgs().At(0), mt.TypeArgs().At(1)
			kd, kv := g.umapKeys(K, V)
			m := e.fc.interiorTerm(base.t, T, i)
			ks := g.sortOf(K)
			switch n.Name {
			case "umHas":
				k := e.expr(n.Args[1])
				return Val{t: fmt.Sprintf("(select (select %s %s) %s)", g.get(e.state, kd), m, k.t), ty: tBool}
			case "umGet":
				k := e.expr(n.Args[1])
				return Val{t: fmt.Sprintf("(select (select %s %s) %s)", g.get(e.state, kv), m, k.t), ty: V}
			case "umDom":
				return Val{t: fmt.Sprintf("(select %s %s)", g.get(e.state, kd), m), gk: "set", ge: K, gs: "(Array " + ks + " Bool)"}
			default:
				return Val{t: fmt.Sprintf("(select %s %s)", g.get(e.state, kv), m), gk: "gmap", gkt: K, ge: V, gs: "(Array " + ks + " " + g.sortOf(V) + ")"}
			}
		}
		cxFail("%s: no such field", n.Name)
	case "preservedCells", "preservedArrays", "preservedFields", "preservedMaps", "preservedStruct":
		// heap cells/arrays/fields/maps of objects that existed at function entry still have their entry contents
		if e.fc.entry == nil {
			cxFail("%s: no entry state", n.Name)
		}
		var keys []string
		switch n.Name {
		case "preservedCells":
			T, _ := e.resolveType(typeArgName(n.Args[0]))
			keys = []string{g.cellKey(T)}
		case "preservedArrays":
			T, _ := e.resolveType(typeArgName(n.Args[0]))
			keys = []string{g.arrKey(T)}
		case "preservedStruct":
			T, _ := e.resolveType(typeArgName(n.Args[0]))
			st, ok := T.Underlying().(*types.Struct)
			if !ok {
				cxFail("preservedStruct: not a struct type")
			}
			for i := 0; i < st.NumFields(); i++ {
				keys = append(keys, g.fieldKey(T, i))
			}
		case "preservedMaps":
			var ks, vs string
			if len(n.Args) == 1 && n.Args[0].Kind == "str" {
				// preservedMaps("K;V"): the string form allows composite key/value types
				i := strings.Index(n.Args[0].Name, ";")
				if i < 0 {
					cxFail("preservedMaps(\"K;V\")")
				}
				ks, vs = strings.TrimSpace(n.Args[0].Name[:i]), strings.TrimSpace(n.Args[0].Name[i+1:])
			} else if len(n.Args) == 2 {
				ks, vs = n.Args[0].String(), n.Args[1].String()
			} else {
				cxFail("preservedMaps(K, V) or preservedMaps(\"K;V\")")
			}
			K, _ := e.resolveType(ks)
			V, _ := e.resolveType(vs)
			kd, kv := g.mapKeys(types.NewMap(K, V))
			keys = []string{kd, kv}
			// "unchanged for every object allocated before" only says something about a stored map reference if
			// that reference is known to be older than the allocation mark
			g.markAlloc(types.NewMap(K, V))
		default:
			if n.Args[0].Kind != "field" {
				cxFail("preservedFields(T.f)")
			}
			T, _ := e.resolveType(n.Args[0].Args[0].String())
			st := T.Underlying().(*types.Struct)
			for i := 0; i < st.NumFields(); i++ {
				if st.Field(i).Name() == n.Args[0].Name {
					keys = []string{g.fieldKey(T, i)}
				}
			}
		}
		var cs []string
		for _, k := range keys {
			cs = append(cs, fmt.Sprintf("(forall ((|o| Int)) (=> (<= |o| %s) (= (select %s |o|) (select %s |o|))))", g.get(e.fc.entry, "$alloc"), g.get(e.state, k), g.get(e.fc.entry, k)))
		}
		return Val{t: and(cs), ty: tBool}
	case "deref":
		// deref(p): the value stored at pointer p (captured variables of closures are pointers to the variable)
		v := e.expr(n.Args[0])
		pt, ok := v.ty.Underlying().(*types.Pointer)
		if !ok {
			cxFail("deref of non-pointer")
		}
		if v.cell != nil {
			// a write-once variable: its value in every state
			if cv, ok := g.constVal[v.cell]; ok {
				return Val{t: cv.t, ty: pt.Elem(), tuple: cv.tuple}
			}
		}
		saved := e.fc.cur
		e.fc.cur = e.state
		t := e.fc.loadWhole(v.t, pt.Elem())
		e.fc.cur = saved
		return Val{t: t, ty: pt.Elem()}
	case "before":
		// before(e): e in the state in which the enclosing loop was entered (loop invariants only)
		if e.loopPre == nil {
			cxFail("before() is available in loop invariants only")
		}
		n2 := *e
		n2.state = e.loopPre
		return n2.expr(n.Args[0])
	case "reached":
		// reached(F): this path has made the (first) call of callee F
		if e.callSite {
			panic(cxSkip{"reached() refers to a path inside the callee"})
		}
		root := e.fc
		for root.parent != nil {
			root = root.parent
		}
		rc, ok := root.afterCallReach[n.Args[0].Name]
		if !ok {
			cxFail("reached(%s): no call of %s before this point", n.Args[0].Name, n.Args[0].Name)
		}
		return Val{t: rc, ty: tBool}
	case "after":
		// after(F, e): e in the state in which the first call of F (short name of a callee of the function under
		// verification, outside loops) returned.  Only meaningful where that call has happened on every path: the
		// call's block must dominate the point at which the expression is evaluated (checked for posts by the caller:
		// the root function's returns).
		if e.callSite {
			panic(cxSkip{"after() refers to a state inside the callee"})
		}
		root := e.fc
		for root.parent != nil {
			root = root.parent
		}
		st, ok := root.afterCall[n.Args[0].Name]
		if !ok {
			cxFail("after(%s, ...): no call of %s before this point", n.Args[0].Name, n.Args[0].Name)
		}
		guard := ""
		if b := root.afterCallBlock[n.Args[0].Name]; root.curBlock != nil && b != root.curBlock && !b.Dominates(root.curBlock) {
			// not every path to this point makes the call: the claim is about the paths that do (boolean e only)
			guard = root.afterCallReach[n.Args[0].Name]
		}
		if len(root.loopsOf[root.afterCallBlock[n.Args[0].Name]]) > 0 {
			cxFail("after(%s, ...): the call is inside a loop", n.Args[0].Name)
		}
		n2 := *e
		n2.state = st
		r := n2.expr(n.Args[1])
		if guard != "" {
			if r.ty != nil && r.ty == tBool {
				r.t = fmt.Sprintf("(=> %s %s)", guard, r.t)
			}
			// a value (not a condition): meaningful only on paths that made the call - guard the clause with reached(F)
		}
		return r
	case "prev":
		// prev(e): e at the start of the current iteration.  Where the invariant is established or assumed this is the
		// current state (prev(e) == e); at the end of the loop body it is the state the iteration started in, so a
		// conjunct over prev() is a claim about every single iteration (checked as inv-step, no knowledge after the loop).
		if e.iterPre == nil {
			cxFail("prev() is available in loop invariants only")
		}
		n2 := *e
		n2.state = e.iterPre
		if e.iterVars != nil {
			// loop-carried variables: their values at the start of the iteration, not the ones carried along the back edge
			n2.vars = map[string]Val{}
			for k, v := range e.vars {
				n2.vars[k] = v
			}
			for k, v := range e.iterVars {
				n2.vars[k] = v
			}
		}
		return n2.expr(n.Args[0])
	case "local":
		// local(x): the current value of the local variable x that lives in memory (e.g. a parameter
		// that is re-assigned and captured by a closure), as opposed to the entry value of parameter x
		nm := n.Args[0].Name
		for c := e.fc; c != nil; c = c.parent {
			if al, ok := c.named[nm]; ok {
				if cv, ok := g.constVal[al]; ok {
					return Val{t: cv.t, ty: al.Type().Underlying().(*types.Pointer).Elem(), tuple: cv.tuple}
				}
				if v, ok := c.vals[al]; ok {
					T := al.Type().Underlying().(*types.Pointer).Elem()
					saved := c.cur
					c.cur = e.state
					t := c.loadWhole(v.t, T)
					c.cur = saved
					return Val{t: t, ty: T}
				}
			}
		}
		// not memory-resident: the variable of an enclosing function by its source name
		for c := e.fc; c != nil; c = c.parent {
			if v, ok := c.params[nm]; ok && c.parent == nil {
				return v
			}
			if v, ok := c.debugNames[nm]; ok && v.tuple == nil {
				return v
			}
		}
		cxFail("local(%s): no such local", nm)
	case "msgBeginTs", "msgEndTs", "msgPosition", "msgType", "msgHashKeys", "msgGet":
		// accessors of a message interface value (msgmodel.go); meaningful for msgKnown(m) messages
		v := e.expr(n.Args[0])
		m := map[string]string{"msgBeginTs": "BeginTs", "msgEndTs": "EndTs", "msgPosition": "Position", "msgType": "Type", "msgHashKeys": "HashKeys"}[n.Name]
		if n.Name == "msgGet" {
			m = n.Args[1].Name
		}
		t, rt, ok := g.msgGetterTerm(e.state, v.t, m)
		if !ok {
			cxFail("%s: no message type with this accessor", n.Name)
		}
		return Val{t: t, ty: rt}
	case "mhas", "mget":
		// raw domain / value lookups of a Go map (no nil-map guard): pattern-friendly forms of `k in m` and m[k]
		mv := e.expr(n.Args[0])
		kx := e.expr(n.Args[1])
		mt, ok := mv.ty.Underlying().(*types.Map)
		if !ok {
			cxFail("%s needs a map", n.Name)
		}
		kd, kv := g.mapKeys(mt)
		if n.Name == "mhas" {
			return Val{t: fmt.Sprintf("(select (select %s %s) %s)", g.get(e.state, kd), mv.t, kx.t), ty: tBool}
		}
		return Val{t: fmt.Sprintf("(select (select %s %s) %s)", g.get(e.state, kv), mv.t, kx.t), ty: mt.Elem()}
	case "boundTo":
		// boundTo(f, "M", x): the function value f is the method value x.M (x a pointer to a named type)
		f := e.expr(n.Args[0])
		recv := e.expr(n.Args[2])
		pt, ok := recv.ty.Underlying().(*types.Pointer)
		if !ok {
			cxFail("boundTo: the receiver must be a pointer")
		}
		nt, ok := unaliasDeep(pt.Elem()).(*types.Named)
		if !ok {
			cxFail("boundTo: the receiver must point to a named type")
		}
		mname := typeArgName(n.Args[1])
		found := false
		for i := 0; i < nt.NumMethods(); i++ {
			if nt.Method(i).Name() == mname {
				found = true
			}
		}
		if !found {
			cxFail("boundTo: %s has no method %s", nt.Obj().Name(), mname)
		}
		full := "(*" + nt.Obj().Pkg().Path() + "." + nt.Obj().Name() + ")." + mname + "$bound"
		g.declareFun("|$fnOf|", "(Int) Int")
		g.declareFun("|$fnRecv|", "(Int) Int")
		return Val{t: fmt.Sprintf("(and (= (|$fnOf| %s) %d) (= (|$fnRecv| %s) %s))", f.t, g.funcID(full), f.t, recv.t), ty: tBool}
	case "onceDone":
		// onceDone(addr(x.f)): the sync.Once at that address has run its function (ghost flag of the Once.Do model)
		v := e.expr(n.Args[0])
		g.regKey("G|$onceDone", "(Array Int Bool)", "ghost")
		return Val{t: fmt.Sprintf("(select %s %s)", g.get(e.state, "G|$onceDone"), v.t), ty: tBool}
	case "msgKnown":
		v := e.expr(n.Args[0])
		return Val{t: g.msgKnownTerm(v.t), ty: tBool}
	case "as":
		// as(x, "*pkg.T"): reinterpret the reference x as a pointer of the given type (ghost references)
		v := e.expr(n.Args[0])
		T, _ := e.resolveType(n.Args[1].Name)
		return Val{t: v.t, ty: T}
	case "cast":
		// cast(x, "*pkg.T"): the value of interface x as dynamic type *pkg.T (use together with typeIs)
		v := e.expr(n.Args[0])
		T, _ := e.resolveType(n.Args[1].Name)
		return Val{t: e.fc.unboxT(T, fmt.Sprintf("(ival %s)", v.t)), ty: T}
	case "isType":
		v := e.expr(n.Args[0])
		T, _ := e.resolveType(n.Args[1].Name)
		return Val{t: fmt.Sprintf("(= (itag %s) %d)", v.t, g.sorts.typeID(T)), ty: tBool}
	case "cleanRoot":
		a := args()
		g.declareFun("|cleanRoot|", "(String) Bool")
		return Val{t: fmt.Sprintf("(|cleanRoot| %s)", a[0].t), ty: tBool}
	case "addr":
		// addr(x.f): identity term of the interior pointer to value field f of *x
		if len(n.Args) == 1 && n.Args[0].Kind == "field" {
			base := e.expr(n.Args[0].Args[0])
			T := base.ty
			if p, ok := T.Underlying().(*types.Pointer); ok {
				T = p.Elem()
			}
			st := T.Underlying().(*types.Struct)
			for i := 0; i < st.NumFields(); i++ {
				if st.Field(i).Name() == n.Args[0].Name {
					return Val{t: e.fc.interiorTerm(base.t, T, i), ty: types.NewPointer(st.Field(i).Type())}
				}
			}
		}
		cxFail("addr() needs a field expression")
	case "typeIs":
		v := e.expr(n.Args[0])
		T, _ := e.resolveType(n.Args[1].Name)
		return Val{t: fmt.Sprintf("(= (itag %s) %d)", v.t, g.sorts.typeID(T)), ty: tBool}
	case "unbox":
		v := e.expr(n.Args[0])
		T, _ := e.resolveType(n.Args[1].Name)
		return Val{t: e.fc.unboxT(T, fmt.Sprintf("(ival %s)", v.t)), ty: T}
	case "allocated":
		v := e.expr(n.Args[0])
		return Val{t: fmt.Sprintf("(and (< 0 %s) (<= %s %s))", v.t, v.t, g.get(e.state, "$alloc")), ty: tBool}
	case "freshRef":
		v := e.expr(n.Args[0])
		if e.oldState == nil {
			cxFail("freshRef needs an old state")
		}
		return Val{t: fmt.Sprintf("(and (< %s %s) (<= %s %s))", g.get(e.oldState, "$alloc"), v.t, v.t, g.get(e.state, "$alloc")), ty: tBool}
	case "visited":
		a := args()
		k := e.theVisKey()
		return Val{t: fmt.Sprintf("(select %s %s)", g.get(e.state, k), a[0].t), ty: tBool}
	case "ownChannels":
		// ownChannels(f): the function value f is a closure all of whose captured channels (and captured objects that
		// could reach one) were made by the function that built it - a send inside f can only reach its creator
		v := e.expr(n.Args[0])
		g.declareFun("|$ownChans|", "(Int) Bool")
		return Val{t: fmt.Sprintf("(|$ownChans| %s)", v.t), ty: tBool}
	case "madeHere":
		// madeHere(x): the object x was allocated by the function under verification (after its entry).  In a callee's
		// precondition, evaluated at a call site: allocated by the caller - "the caller hands over an object of its own".
		v := e.expr(n.Args[0])
		root := e.fc
		for root.parent != nil {
			root = root.parent
		}
		return Val{t: fmt.Sprintf("(and (< %s %s) (<= %s %s))", g.get(root.entry, "$alloc"), v.t, v.t, g.get(e.state, "$alloc")), ty: tBool}
	case "freshRef2":
		// freshRef2(s): the backing array of slice s was allocated after function entry
		v := e.expr(n.Args[0])
		return Val{t: fmt.Sprintf("(< %s (sarr %s))", g.get(e.fc.entry, "$alloc"), v.t), ty: tBool}
	case "visitedCount":
		k := "N|" + strings.TrimPrefix(e.theVisKey(), "V|")
		return Val{t: g.get(e.state, k), ty: tMath}
	case "visitedSet":
		k := e.theVisKey()
		return Val{t: g.get(e.state, k), gk: "set", gs: g.keys[k].sort}
	case "domain":
		v := e.expr(n.Args[0])
		mt := v.ty.Underlying().(*types.Map)
		kd, _ := g.mapKeys(mt)
		ks := g.sortOf(mt.Key())
		return Val{t: fmt.Sprintf("(ite (= %s 0) ((as const (Array %s Bool)) false) (select %s %s))", v.t, ks, g.get(e.state, kd), v.t), gk: "set", ge: mt.Key(), gs: "(Array " + ks + " Bool)"}
	case "values":
		v := e.expr(n.Args[0])
		mt := v.ty.Underlying().(*types.Map)
		_, kv := g.mapKeys(mt)
		ks := g.sortOf(mt.Key())
		return Val{t: fmt.Sprintf("(select %s %s)", g.get(e.state, kv), v.t), gk: "gmap", gkt: mt.Key(), ge: mt.Elem(), gs: "(Array " + ks + " " + g.sortOf(mt.Elem()) + ")"}
	}
	// uninterpreted math functions declared through axioms: name starting with '$'
	if sf, ok := g.cs.Specs[n.Name]; ok {
		return e.specCall(sf, n)
	}
	if uf, ok := g.ufs[n.Name]; ok {
		a := args()
		var ts []string
		for _, x := range a {
			ts = append(ts, x.t)
		}
		r := uf.ret
		r.t = "(" + uf.smt + " " + strings.Join(ts, " ") + ")"
		if len(ts) == 0 {
			r.t = uf.smt
		}
		return r
	}
	cxFail("unknown function %s in contract", n.Name)
	return Val{}
}

type ufDecl struct {
	smt string
	ret Val
}

func (e *Env) specCall(sf *SpecFn, n *CNode) Val {
	if e.depth > 12 {
		cxFail("spec function recursion too deep: %s", sf.Name)
	}
	if len(n.Args) != len(sf.Params) {
		cxFail("spec %s: %d args, want %d", sf.Name, len(n.Args), len(sf.Params))
	}
	s := e.sub()
	s.depth = e.depth + 1
	// evaluate args in caller env, bind by name (shadowing everything)
	// long argument terms are bound with an SMT let, so that nested specification functions do not multiply the text
	// of their arguments (srcDB(e, id) used five times inside a key function, which is used inside a quantifier, ...)
	type letb struct{ name, term string }
	var lets []letb
	for i, p := range sf.Params {
		v := e.expr(n.Args[i])
		if len(v.t) > 60 && v.tuple == nil && v.cell == nil {
			specLetCounter++
			if !strings.Contains(v.t, "|q!") && !strings.Contains(v.t, "|a!") {
				// a closed term (no bound variable): named by a constant, so that it can occur in quantifier patterns
				// (a let would be expanded by the solver before patterns are checked)
				nm := fmt.Sprintf("|sa!%d|", specLetCounter)
				e.g.emit(fmt.Sprintf("(declare-const %s %s)", nm, e.sortOfVal(v)))
				e.g.emit(fmt.Sprintf("(assert (= %s %s))", nm, v.t))
				v.t = nm
			} else {
				nm := fmt.Sprintf("|a!%d|", specLetCounter)
				lets = append(lets, letb{nm, v.t})
				v.t = nm
			}
		}
		s.bound[p] = v
	}
	r := s.expr(sf.Body)
	if len(lets) > 0 {
		if r.tuple != nil {
			// (not expected: specification functions return scalars) - fall back to plain substitution
			for i, p := range sf.Params {
				s.bound[p] = e.expr(n.Args[i])
			}
			return s.expr(sf.Body)
		}
		var bs []string
		for _, l := range lets {
			bs = append(bs, "("+l.name+" "+l.term+")")
		}
		r.t = "(let (" + strings.Join(bs, " ") + ") " + r.t + ")"
	}
	return r
}

var specLetCounter int

func (e *Env) theVisKey() string {
	if e.visKey != "" {
		return e.visKey
	}
	var found []string
	for _, k := range e.g.keyOrder {
		if e.g.keys[k].kind == "visited" && strings.HasPrefix(k, "V|"+e.fc.prefix) {
			found = append(found, k)
		}
	}
	if len(found) != 1 {
		cxFail("visited(): %d map iterations in scope; only allowed inside a loop over a map", len(found))
	}
	return found[0]
}

func commonPrefix(a, b string) int {
	n := 0
	for n < len(a) && n < len(b) && a[n] == b[n] {
		n++
	}
	return n
}
