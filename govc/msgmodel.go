package main

// Built-in model of method calls through message interfaces (msgstream.TsMsg and the anonymous
// `interface{ GetCollectionID() int64 }` style views of it).
//
// The message types of github.com/milvus-io/milvus/pkg/mq/msgstream are all of one shape:
//
//	type InsertMsg struct { BaseMsg; *msgpb.InsertRequest }
//
// BeginTs/EndTs/Position/HashKeys/SetPosition are the trivial accessors of the embedded BaseMsg (by value),
// GetX() are the generated nil-safe protobuf getters of the embedded request, and Type() returns
// request.Base.MsgType for every message type (read from msg.go, msg_for_*.go of the pinned milvus pkg
// module).  An interface method call dispatches on the dynamic type tag over the *universe* of message types
// that the package under verification mentions in type switches / assertions / conversions; for any other
// dynamic type the result is arbitrary.

import (
	"fmt"
	"go/types"
	"sort"
	"strings"

	"golang.org/x/tools/go/ssa"
)

func isMsgStructPtr(t types.Type) (*types.Named, bool) {
	pt, ok := t.(*types.Pointer)
	if !ok {
		return nil, false
	}
	n, ok := pt.Elem().(*types.Named)
	if !ok || n.Obj().Pkg() == nil || !strings.HasSuffix(n.Obj().Pkg().Path(), "mq/msgstream") {
		return nil, false
	}
	st, ok := n.Underlying().(*types.Struct)
	if !ok {
		return nil, false
	}
	for i := 0; i < st.NumFields(); i++ {
		if st.Field(i).Embedded() && st.Field(i).Name() == "BaseMsg" {
			return n, true
		}
	}
	return nil, false
}

// msgUniverse: the message pointer types mentioned by the package of the root function.
func (g *Gen) msgUniverse() []types.Type {
	if g.msgUni != nil {
		return g.msgUni
	}
	g.msgUni = []types.Type{}
	if g.rootFn == nil || g.rootFn.Pkg == nil {
		return g.msgUni
	}
	seen := map[string]types.Type{}
	add := func(t types.Type) {
		if _, ok := isMsgStructPtr(t); ok {
			seen[types.TypeString(t, nil)] = t
		}
	}
	// the message types the function under verification can meet: mentioned by it, by the functions of its package
	// it calls statically (three levels), or by the contracts that were expanded in the previous pass (msgUniSeed)
	done := map[*ssa.Function]bool{}
	var visit func(f *ssa.Function, depth int)
	visit = func(f *ssa.Function, depth int) {
		if f == nil || done[f] || depth > 3 {
			return
		}
		done[f] = true
		for _, b := range f.Blocks {
			for _, ins := range b.Instrs {
				switch x := ins.(type) {
				case *ssa.TypeAssert:
					add(x.AssertedType)
				case *ssa.MakeInterface:
					add(x.X.Type())
				}
				if cc := callCommonOf(ins); cc != nil {
					if sc := cc.StaticCallee(); sc != nil && sc.Pkg == g.rootFn.Pkg {
						visit(sc, depth+1)
					}
				}
			}
		}
		for _, a := range f.AnonFuncs {
			visit(a, depth)
		}
	}
	visit(g.rootFn, 0)
	for _, T := range g.msgUniSeed {
		add(T)
	}
	var names []string
	for n := range seen {
		names = append(names, n)
	}
	sort.Strings(names)
	for _, n := range names {
		g.msgUni = append(g.msgUni, seen[n])
		g.sorts.typeID(seen[n])
	}
	return g.msgUni
}

// msgAccessor describes how method m of message pointer type T reads (or writes) the message object.
type msgAccessor struct {
	kind  string     // "base" (field of the embedded BaseMsg), "req" (nil-safe getter of the embedded request), "type"
	S     types.Type // the message struct type
	efld  int        // index of the embedded field in S
	E     types.Type // type of the embedded struct (BaseMsg or the request struct)
	ffld  int        // field index in E
	rt    types.Type
	baseT types.Type // for "type": *commonpb.MsgBase elem
	bfld  int        // for "type": index of Base in E
	mfld  int        // for "type": index of MsgType in MsgBase
}

func (g *Gen) msgAccessorFor(T types.Type, m string) *msgAccessor {
	n, ok := isMsgStructPtr(T)
	if !ok {
		return nil
	}
	st := n.Underlying().(*types.Struct)
	obj, idxs, _ := types.LookupFieldOrMethod(T, true, n.Obj().Pkg(), m)
	fn, ok := obj.(*types.Func)
	if !ok {
		return nil
	}
	sig := fn.Type().(*types.Signature)
	if m == "Type" && len(idxs) == 1 {
		// defined on the message type itself: request.Base.MsgType
		for i := 0; i < st.NumFields(); i++ {
			pt, ok := st.Field(i).Type().(*types.Pointer)
			if !ok || !st.Field(i).Embedded() {
				continue
			}
			rs, ok := pt.Elem().Underlying().(*types.Struct)
			if !ok {
				continue
			}
			for j := 0; j < rs.NumFields(); j++ {
				if rs.Field(j).Name() != "Base" {
					continue
				}
				bp, ok := rs.Field(j).Type().(*types.Pointer)
				if !ok {
					continue
				}
				bs, ok := bp.Elem().Underlying().(*types.Struct)
				if !ok {
					continue
				}
				for k := 0; k < bs.NumFields(); k++ {
					if bs.Field(k).Name() == "MsgType" && sig.Results().Len() == 1 {
						return &msgAccessor{kind: "type", S: n, efld: i, E: pt.Elem(), bfld: j, baseT: bp.Elem(), mfld: k, rt: sig.Results().At(0).Type()}
					}
				}
			}
		}
		return nil
	}
	if len(idxs) != 2 {
		return nil
	}
	ef := st.Field(idxs[0])
	if !ef.Embedded() {
		return nil
	}
	if ef.Name() == "BaseMsg" {
		bs, ok := ef.Type().Underlying().(*types.Struct)
		if !ok {
			return nil
		}
		field := baseMsgGetters[m]
		if m == "SetPosition" {
			field = "MsgPosition"
		}
		if field == "" {
			return nil
		}
		for j := 0; j < bs.NumFields(); j++ {
			if bs.Field(j).Name() == field {
				return &msgAccessor{kind: "base", S: n, efld: idxs[0], E: ef.Type(), ffld: j, rt: bs.Field(j).Type()}
			}
		}
		return nil
	}
	pt, ok := ef.Type().(*types.Pointer)
	if !ok || !strings.HasPrefix(m, "Get") || sig.Params().Len() != 0 || sig.Results().Len() != 1 {
		return nil
	}
	rs, ok := pt.Elem().Underlying().(*types.Struct)
	if !ok {
		return nil
	}
	for j := 0; j < rs.NumFields(); j++ {
		if rs.Field(j).Name() == m[3:] && types.Identical(rs.Field(j).Type(), sig.Results().At(0).Type()) {
			return &msgAccessor{kind: "req", S: n, efld: idxs[0], E: pt.Elem(), ffld: j, rt: rs.Field(j).Type()}
		}
	}
	return nil
}

// msgRead: the value method m yields for the message object p of struct type a.S in state st.
func (g *Gen) msgRead(st *State, a *msgAccessor, p string) string {
	switch a.kind {
	case "base":
		return fmt.Sprintf("(%s (select %s %s))", g.sorts.structSel(a.E, a.ffld), g.get(st, g.fieldKey(a.S, a.efld)), p)
	case "req":
		q := fmt.Sprintf("(select %s %s)", g.get(st, g.fieldKey(a.S, a.efld)), p)
		return fmt.Sprintf("(ite (= %s 0) %s (select %s %s))", q, g.sorts.zero(a.rt), g.get(st, g.fieldKey(a.E, a.ffld)), q)
	case "type":
		q := fmt.Sprintf("(select %s %s)", g.get(st, g.fieldKey(a.S, a.efld)), p)
		b := fmt.Sprintf("(select %s %s)", g.get(st, g.fieldKey(a.E, a.bfld)), q)
		return fmt.Sprintf("(select %s %s)", g.get(st, g.fieldKey(a.baseT, a.mfld)), b)
	}
	panic("msgRead")
}

// msgGetterTerm: value of iface.m() in state st as an ite chain over the universe; `other` is the term used
// for dynamic types outside the universe.
func (g *Gen) msgGetterTerm(st *State, iface string, m string) (string, types.Type, bool) {
	var rt types.Type
	type arm struct {
		id int
		t  string
	}
	var arms []arm
	for _, T := range g.msgUniverse() {
		a := g.msgAccessorFor(T, m)
		if a == nil || m == "SetPosition" {
			continue
		}
		if rt == nil {
			rt = a.rt
		} else if !types.Identical(rt, a.rt) {
			continue
		}
		arms = append(arms, arm{g.sorts.typeID(T), g.msgRead(st, a, fmt.Sprintf("(ival %s)", iface))})
	}
	if len(arms) == 0 {
		return "", nil, false
	}
	// dynamic types outside the universe: an abstract field per accessor, indexed by the message object; it is
	// part of the heap (unknown code may change it) and SetPosition writes the one of Position
	ok := g.msgOtherKey(m, rt)
	t := fmt.Sprintf("(select %s (ival %s))", g.get(st, ok), iface)
	for i := len(arms) - 1; i >= 0; i-- {
		t = fmt.Sprintf("(ite (= (itag %s) %d) %s %s)", iface, arms[i].id, arms[i].t, t)
	}
	g.trusted["built-in model: msgstream message interfaces - BeginTs/EndTs/Position/HashKeys/SetPosition are the accessors of the embedded BaseMsg, GetX the nil-safe getters of the embedded request, Type() = request.Base.MsgType; dispatch over the message types the package mentions, arbitrary for other dynamic types"] = true
	return t, rt, true
}

func (g *Gen) msgOtherKey(m string, rt types.Type) string {
	k := "H|msgstream.otherMessage|" + m
	g.regKeyT(k, "(Array Int "+g.sortOf(rt)+")", "field", rt)
	return k
}

func (g *Gen) msgKnownTerm(iface string) string {
	var cs []string
	for _, T := range g.msgUniverse() {
		cs = append(cs, fmt.Sprintf("(= (itag %s) %d)", iface, g.sorts.typeID(T)))
	}
	return or(cs)
}

func (fc *FnCtx) specialInvoke(ins ssa.Instruction, cc *ssa.CallCommon, recv Val, args []Val, setResult func([]Val)) bool {
	g := fc.g
	m := cc.Method.Name()
	if _, ok := cc.Value.Type().Underlying().(*types.Interface); !ok {
		return false
	}
	if m == "SetPosition" && len(args) == 1 {
		done := false
		for _, T := range g.msgUniverse() {
			a := g.msgAccessorFor(T, m)
			if a == nil {
				continue
			}
			done = true
			k := g.fieldKey(a.S, a.efld)
			h := g.get(fc.cur, k)
			p := fmt.Sprintf("(ival %s)", recv.t)
			upd := fc.updPath(fmt.Sprintf("(select %s %s)", h, p), []pathStep{{T: a.E, fld: a.ffld}}, args[0].t)
			g.set(fc.cur, k, fmt.Sprintf("(ite (= (itag %s) %d) (store %s %s %s) %s)", recv.t, g.sorts.typeID(T), h, p, upd, h))
		}
		if !done {
			return false
		}
		{
			ok := g.msgOtherKey("Position", cc.Signature().Params().At(0).Type())
			h := g.get(fc.cur, ok)
			g.set(fc.cur, ok, fmt.Sprintf("(ite %s %s (store %s (ival %s) %s))", g.msgKnownTerm(recv.t), h, h, recv.t, args[0].t))
		}
		g.trusted["assumed: SetPosition of a message type outside the modelled universe writes only that message's own position"] = true
		setResult(nil)
		return true
	}
	if len(args) != 0 || cc.Signature().Results().Len() != 1 {
		return false
	}
	t, rt, ok := g.msgGetterTerm(fc.cur, recv.t, m)
	if !ok || !types.Identical(rt, cc.Signature().Results().At(0).Type()) {
		return false
	}
	n := g.def(fc.prefix+"msg."+m, g.sortOf(rt), t)
	if rc := g.sorts.rangeConstraint(rt, n); rc != "" {
		fc.assume(rc, "range")
	}
	fc.boundRefs(rt, n)
	setResult([]Val{{t: n, ty: rt}})
	return true
}
