package main

// Lock invariants (DESIGN.md 1.9): monitor rule for state that is only touched under a mutex.

import (
	"fmt"
	"go/types"
	"strings"

	"golang.org/x/tools/go/ssa"
)

var lockMethods = map[string]string{
	"(*sync.Mutex).Lock": "lock", "(*sync.Mutex).Unlock": "unlock",
	"(*sync.RWMutex).Lock": "lock", "(*sync.RWMutex).Unlock": "unlock", "(*sync.RWMutex).RLock": "rlock", "(*sync.RWMutex).RUnlock": "runlock",
	"(*github.com/sasha-s/go-deadlock.Mutex).Lock": "lock", "(*github.com/sasha-s/go-deadlock.Mutex).Unlock": "unlock",
	"(*github.com/sasha-s/go-deadlock.RWMutex).Lock": "lock", "(*github.com/sasha-s/go-deadlock.RWMutex).Unlock": "unlock",
	"(*github.com/sasha-s/go-deadlock.RWMutex).RLock": "rlock", "(*github.com/sasha-s/go-deadlock.RWMutex).RUnlock": "runlock",
}

// lockOf resolves the lock argument to (owner struct type, field index, owner object term).
func (fc *FnCtx) lockOf(v ssa.Value) (types.Type, int, string, bool) {
	fa, ok := v.(*ssa.FieldAddr)
	if !ok {
		return nil, 0, "", false
	}
	T := fa.X.Type().Underlying().(*types.Pointer).Elem()
	// owner identity: the pointer the field address was taken from
	return T, fa.Field, fc.term(fa.X).t, true
}

func (g *Gen) lockInvFor(T types.Type, fld int) *LockInv {
	n, ok := T.(*types.Named)
	if !ok || n.Obj().Pkg() == nil {
		return nil
	}
	st := T.Underlying().(*types.Struct)
	return g.cs.LockInvs[n.Obj().Pkg().Path()+"::"+n.Obj().Name()+"."+st.Field(fld).Name()]
}

func (g *Gen) lockKey(T types.Type, fld int) string {
	st := T.Underlying().(*types.Struct)
	k := "L|" + typeKey(T) + "|" + st.Field(fld).Name()
	g.regKey(k, "(Array Int Int)", "lockstate")
	return k
}

// protectedBy: fieldKey -> (lock type, lock field) for lock-held obligations.
func (g *Gen) protectedBy(T types.Type, fld int) (*LockInv, types.Type, int) {
	n, ok := T.(*types.Named)
	if !ok || n.Obj().Pkg() == nil {
		return nil, nil, 0
	}
	st := T.Underlying().(*types.Struct)
	want := n.Obj().Name() + "." + st.Field(fld).Name()
	for k, li := range g.cs.LockInvs {
		if !strings.HasPrefix(k, n.Obj().Pkg().Path()+"::") || li.Type != n.Obj().Name() {
			continue
		}
		for _, p := range li.Protects {
			if p == want {
				for i := 0; i < st.NumFields(); i++ {
					if st.Field(i).Name() == li.Field {
						return li, T, i
					}
				}
			}
		}
	}
	return nil, nil, 0
}

func (fc *FnCtx) lockEnv(li *LockInv, T types.Type, owner string, st *State, old *State) *Env {
	env := fc.envAt(st, nil)
	env.vars = map[string]Val{li.Self: {t: owner, ty: types.NewPointer(T)}}
	for k, v := range fc.params {
		if _, clash := env.vars[k]; !clash {
			env.vars[k] = v
		}
	}
	if p := fc.g.ld.typesPkg(li.Pkg); p != nil {
		env.pkg = p
	}
	env.oldState = old
	return env
}

func (fc *FnCtx) specialSync(ins ssa.Instruction, callee *ssa.Function, cc *ssa.CallCommon, args []Val, setResult func([]Val)) bool {
	g := fc.g
	op, ok := lockMethods[callee.String()]
	if !ok {
		return fc.specialHigher(ins, callee, cc, args, setResult)
	}
	T, fld, owner, ok := fc.lockOf(cc.Args[0])
	var li *LockInv
	if ok {
		li = g.lockInvFor(T, fld)
	}
	if li == nil {
		g.trusted["locks without a lockinv are no-ops (single-goroutine reasoning inside the function)"] = true
		setResult(nil)
		return true
	}
	lk := g.lockKey(T, fld)
	g.trusted["monitor rule: fields declared `protects` are only accessed with the lock held (lock-held obligations), other goroutines' critical sections re-establish the lock invariant"] = true
	switch op {
	case "lock", "rlock":
		// havoc the protected state of this owner, assume the invariant
		pre := fc.cur.clone()
		st := T.Underlying().(*types.Struct)
		for _, p := range li.Protects {
			if li.NoHavoc {
				break
			}
			if i := strings.Index(p, "."); i >= 0 {
				for f := 0; f < st.NumFields(); f++ {
					if st.Field(f).Name() == p[i+1:] {
						k := g.fieldKey(T, f)
						nv := g.fresh("lk."+k, g.sortOf(st.Field(f).Type()))
						g.set(fc.cur, k, fmt.Sprintf("(store %s %s %s)", g.get(fc.cur, k), owner, nv))
						if rc := g.sorts.rangeConstraint(st.Field(f).Type(), nv); rc != "" {
							fc.assume(rc, "range")
						}
						fc.boundRefs(st.Field(f).Type(), nv)
					}
				}
			} else if gv, ok := g.cs.Ghosts[p]; ok {
				env := fc.envAt(fc.cur, nil)
				env.ghostVal(gv)
				g.havocKey(fc.cur, "G|"+p, "lock")
			}
		}
		env := fc.lockEnv(li, T, owner, fc.cur, pre)
		fc.assume(env.boolExpr(li.Inv), "lock invariant at Lock")
		if li.Guar != nil {
			// everybody's critical sections satisfy G, so G(state last seen, state now)
			fc.assume(env.boolExpr(li.Guar), "lock guarantee (rely) at Lock")
		}
		mode := "2"
		if op == "rlock" {
			mode = "1"
		}
		g.set(fc.cur, lk, fmt.Sprintf("(store %s %s %s)", g.get(fc.cur, lk), owner, mode))
		fc.lockSnap[lk+"@"+owner] = fc.cur.clone()
	case "unlock", "runlock":
		// ghost assignments scheduled for unlock
		fc.applyGhostSets("unlock")
		snap := fc.lockSnap[lk+"@"+owner]
		env := fc.lockEnv(li, T, owner, fc.cur, snap)
		held := fmt.Sprintf("(>= (select %s %s) 1)", g.get(fc.cur, lk), owner)
		fc.oblige("lock-held", "unlock:"+li.Type+"."+li.Field, posOf(ins), held, "unlock of a held lock", "")
		fc.oblige("lockinv", li.Type+"."+li.Field, posOf(ins), env.boolExpr(li.Inv), li.Src, "")
		if li.Guar != nil && snap != nil {
			fc.oblige("lockguar", li.Type+"."+li.Field, posOf(ins), env.boolExpr(li.Guar), li.GuarSrc, "")
		}
		g.set(fc.cur, lk, fmt.Sprintf("(store %s %s 0)", g.get(fc.cur, lk), owner))
	}
	setResult(nil)
	return true
}

func (fc *FnCtx) applyGhostSets(when string) {
	root := fc
	for root.parent != nil {
		root = root.parent
	}
	c := fc.c
	if c == nil {
		c = root.c
	}
	if c == nil {
		return
	}
	for _, gs := range c.GhostSets {
		if strings.TrimSuffix(gs.When, "?") != when {
			continue
		}
		gv, ok := fc.g.cs.Ghosts[gs.Var]
		if !ok {
			cxFail("ghostset: unknown ghost variable %s", gs.Var)
		}
		env := fc.envAt(fc.cur, nil)
		env.oldState = fc.entry
		if when == "return" && len(fc.pendingResults) > 0 {
			_, rn := sigNames(fc.fn.Signature, nil, true)
			bindResults(env, fc.pendingResults, rn)
		}
		env.ghostVal(gv)
		if strings.HasSuffix(gs.When, "?") {
			// "return?": only at the returns where every name of the expression is in scope
			ok := func() (ok bool) {
				defer func() {
					if r := recover(); r != nil {
						if ce, is := r.(cxError); is && strings.HasPrefix(ce.msg, "unknown identifier") {
							ok = false
							return
						}
						panic(r)
					}
				}()
				v := env.expr(gs.Expr)
				fc.g.set(fc.cur, "G|"+gs.Var, v.t)
				return true
			}()
			_ = ok
			continue
		}
		v := env.expr(gs.Expr)
		fc.g.set(fc.cur, "G|"+gs.Var, v.t)
	}
}

// lockHeld emits the lock-held obligation for an access to a protected field.
func (fc *FnCtx) lockHeld(T types.Type, fld int, obj string, write bool, ins ssa.Instruction) {
	g := fc.g
	li, LT, lf := g.protectedBy(T, fld)
	if li == nil {
		return
	}
	lk := g.lockKey(LT, lf)
	need := "1"
	if write {
		need = "2"
	}
	al0 := g.get(fc.entry, "$alloc")
	goal := fmt.Sprintf("(or (> %s %s) (>= (select %s %s) %s))", obj, al0, g.get(fc.cur, lk), obj, need)
	st := T.Underlying().(*types.Struct)
	what := "read"
	if write {
		what = "write"
	}
	fc.oblige("lock-held", what+":"+li.Type+"."+st.Field(fld).Name(), posOf(ins), goal, "protected by "+li.Type+"."+li.Field, "")
}
