package main

import (
	"bytes"
	"context"
	"fmt"
	"os"
	"os/exec"
	"path/filepath"
	"strings"
	"sync"
	"time"
)

type SolveResult struct {
	Status string // unsat sat unknown
	Solver string
	Secs   float64
	Output string
	File   string
	Size   int
	Tried  []string
}

var solverCmds = map[string][]string{
	"z3-new": {"z3-new", "-smt2"},
	"z3":     {"/usr/bin/z3", "-smt2"},
	"cvc5":   {"cvc5", "--lang=smt2", "--strings-exp", "--produce-models", "--arrays-exp"},
}

func runSolver(name, file string, timeout time.Duration) (string, string, float64) {
	return runSolverCtx(context.Background(), name, file, timeout)
}

func runSolverCtx(parent context.Context, name, file string, timeout time.Duration) (string, string, float64) {
	cmdv := append([]string{}, solverCmds[name]...)
	switch name {
	case "z3-new", "z3":
		cmdv = append(cmdv, fmt.Sprintf("-T:%d", int(timeout.Seconds())+1))
	case "cvc5":
		cmdv = append(cmdv, fmt.Sprintf("--tlimit=%d", timeout.Milliseconds()))
	}
	cmdv = append(cmdv, file)
	ctx, cancel := context.WithTimeout(parent, timeout+2*time.Second)
	defer cancel()
	t0 := time.Now()
	cmd := exec.CommandContext(ctx, cmdv[0], cmdv[1:]...)
	var out bytes.Buffer
	cmd.Stdout = &out
	cmd.Stderr = &out
	_ = cmd.Run()
	secs := time.Since(t0).Seconds()
	s := out.String()
	// the verdict is the first line that is not a warning (z3 prints pattern warnings before it)
	first := ""
	for _, l := range strings.Split(s, "\n") {
		l = strings.TrimSpace(l)
		if l == "" || strings.HasPrefix(l, "WARNING") {
			continue
		}
		first = l
		break
	}
	switch first {
	case "unsat", "sat", "unknown":
		return first, s, secs
	}
	if strings.Contains(s, "timeout") || ctx.Err() != nil {
		return "unknown", "timeout\n" + s, secs
	}
	return "error", s, secs
}

// buildQuery assembles the SMT-LIB text for one obligation.
func buildQuery(u *Unit, o *Oblig, extra []string) string {
	var sb strings.Builder
	sb.WriteString("; obligation: " + o.Name + "\n")
	sb.WriteString("(set-option :produce-models true)\n(set-logic ALL)\n")
	sb.WriteString(u.Prelude)
	sb.WriteString("AXIOMS-PLACEHOLDER\n")
	for _, a := range u.Assumps {
		if a.seq < o.seq && (a.blk < 0 || o.blk < 0 || u.g == nil || u.g.rootReach == nil || u.g.rootReach[a.blk][o.blk]) {
			sb.WriteString("(assert ")
			sb.WriteString(a.term)
			sb.WriteString(")\n")
		}
	}
	for _, e := range extra {
		sb.WriteString("(assert " + e + ")\n")
	}
	sb.WriteString("(assert " + o.reach + ")\n")
	sb.WriteString("(assert (not " + o.goal + "))\n")
	sb.WriteString("(check-sat)\n")
	if len(u.ParamInfo) > 0 {
		var ts []string
		for _, p := range u.ParamInfo {
			ts = append(ts, p.Term)
		}
		sb.WriteString("(get-value (" + strings.Join(ts, " ") + "))\n")
	}
	sb.WriteString("(get-model)\n")
	text := sb.String()
	ax := ""
	if u.g != nil {
		for _, a := range u.g.cs.Axioms {
			if len(a.For) > 0 && (u.Contract == nil || !contains(a.For, u.Contract.Key)) {
				continue
			}
			t := a.Text
			used := false
			for n := range u.g.cs.UFuncs {
				if strings.Contains(t, n) {
					t = replaceWord(t, n, "|uf!"+n+"|")
					if strings.Contains(text, "(|uf!"+n+"| ") {
						used = true
					}
				}
			}
			if used {
				ax += "(assert " + t + ") ; axiom " + a.Name + "\n"
			}
		}
	}
	return strings.Replace(text, "AXIOMS-PLACEHOLDER\n", ax, 1)
}

type job struct {
	u     *Unit
	o     *Oblig
	extra []string
	res   *SolveResult
}

// solveAll discharges jobs on `workers` cores. Order: z3-new (short), then cvc5 + old z3.
func solveAll(jobs []*job, dir string, timeout time.Duration, workers int) {
	var wg sync.WaitGroup
	ch := make(chan *job)
	for w := 0; w < workers; w++ {
		wg.Add(1)
		go func() {
			defer wg.Done()
			for j := range ch {
				solveOne(j, dir, timeout)
			}
		}()
	}
	for _, j := range jobs {
		ch <- j
	}
	close(ch)
	wg.Wait()
}

var fileCounter int
var fileMu sync.Mutex

func solveOne(j *job, dir string, timeout time.Duration) {
	q := buildQuery(j.u, j.o, j.extra)
	fileMu.Lock()
	fileCounter++
	n := fileCounter
	fileMu.Unlock()
	file := filepath.Join(dir, fmt.Sprintf("q%04d.smt2", n))
	os.WriteFile(file, []byte(q), 0o644)
	res := &SolveResult{File: file, Size: len(q)}
	j.res = res
	t0 := time.Now()
	type ans struct {
		solver, st, out string
		secs            float64
	}
	if j.o.Kind == "cover" && timeout > 3*time.Second {
		timeout = 3 * time.Second // covers with quantified assumptions may stay unknown; that is tolerated
	}
	ch := make(chan ans, 3)
	ctx, cancel := context.WithCancel(context.Background())
	defer cancel()
	solvers := []string{"z3-new", "cvc5", "z3"}
	for _, s := range solvers {
		go func(s string) {
			st, out, secs := runSolverCtx(ctx, s, file, timeout)
			ch <- ans{s, st, out, secs}
		}(s)
	}
	out := ""
	lastOut := out
	for i := 0; i < 3; i++ {
		a := <-ch
		res.Tried = append(res.Tried, fmt.Sprintf("%s:%s:%.2fs", a.solver, a.st, a.secs))
		if a.st == "unsat" || a.st == "sat" {
			res.Status, res.Solver, res.Output, res.Secs = a.st, a.solver, a.out, time.Since(t0).Seconds()
			cancel()
			return
		}
		lastOut = a.out
	}
	res.Status, res.Solver, res.Output, res.Secs = "unknown", "all", lastOut, time.Since(t0).Seconds()
}

// modelValue extracts the value of a constant from a z3/cvc5 model text.
func modelValue(model, name string) (string, bool) {
	key := "(define-fun " + name + " ()"
	i := strings.Index(model, key)
	if i < 0 {
		return "", false
	}
	rest := model[i+len(key):]
	// skip sort: read one s-expression or atom
	rest = strings.TrimLeft(rest, " \n\t")
	_, rest = readSexp(rest)
	rest = strings.TrimLeft(rest, " \n\t")
	v, _ := readSexp(rest)
	return strings.TrimSpace(v), true
}

func readSexp(s string) (string, string) {
	if s == "" {
		return "", ""
	}
	if s[0] == '"' {
		i := 1
		for i < len(s) {
			if s[i] == '"' {
				if i+1 < len(s) && s[i+1] == '"' {
					i += 2
					continue
				}
				break
			}
			i++
		}
		return s[:i+1], s[i+1:]
	}
	if s[0] != '(' {
		i := strings.IndexAny(s, " \n\t)")
		if i < 0 {
			return s, ""
		}
		return s[:i], s[i:]
	}
	depth := 0
	inStr := false
	for i := 0; i < len(s); i++ {
		c := s[i]
		if c == '"' {
			inStr = !inStr
		}
		if inStr {
			continue
		}
		if c == '(' {
			depth++
		} else if c == ')' {
			depth--
			if depth == 0 {
				return s[:i+1], s[i+1:]
			}
		}
	}
	return s, ""
}

func replaceWord(s, w, by string) string {
	var sb strings.Builder
	for i := 0; i < len(s); {
		if strings.HasPrefix(s[i:], w) {
			before := i == 0 || strings.ContainsRune(" ()\n\t", rune(s[i-1]))
			after := i+len(w) >= len(s) || strings.ContainsRune(" ()\n\t", rune(s[i+len(w)]))
			if before && after {
				sb.WriteString(by)
				i += len(w)
				continue
			}
		}
		sb.WriteByte(s[i])
		i++
	}
	return sb.String()
}
