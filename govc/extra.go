package main

import (
	"fmt"
	"strings"

	"golang.org/x/tools/go/ssa"
)

// render (re)builds the SMT prelude from the generator state.
func (u *Unit) render() {
	var sb strings.Builder
	for _, l := range u.g.sorts.decl {
		sb.WriteString(l)
		sb.WriteByte('\n')
	}
	for _, l := range u.g.lines {
		sb.WriteString(l)
		sb.WriteByte('\n')
	}
	u.Prelude = sb.String()
}

// translateEntry translates a contract-language expression over the function's parameters
// (entry state) to SMT; used for known-finding discriminators.
func (u *Unit) translateEntry(src string) (s string, err error) {
	defer func() {
		if r := recover(); r != nil {
			if ce, ok := r.(cxError); ok {
				err = fmt.Errorf("%s", ce.msg)
				return
			}
			panic(r)
		}
	}()
	n, err := parseCExpr(src)
	if err != nil {
		return "", err
	}
	if u.env == nil {
		return "", fmt.Errorf("no entry environment")
	}
	t := u.env.boolExpr(n)
	u.render()
	return t, nil
}

// lemmaJobs creates one unit per lemma tagged with the property.
func lemmaJobs(cs *ContractSet, loaders []*Loader, prop string, jobs *[]*job, broken *bool) []*Unit {
	var units []*Unit
	for _, l := range cs.Lemmas {
		if l.Axiom || !contains(l.Props, prop) {
			continue
		}
		var ld *Loader
		for _, x := range loaders {
			if x.typesPkg(l.Pkg) != nil {
				ld = x
			}
		}
		if ld == nil {
			continue
		}
		u := lemmaUnit(ld, cs, l)
		if u.Err != "" {
			fmt.Printf("BROKEN-CONTRACT: lemma %s: %s\n", l.Name, u.Err)
			*broken = true
			continue
		}
		units = append(units, u)
		for _, o := range u.Obligs {
			*jobs = append(*jobs, &job{u: u, o: o})
		}
	}
	return units
}

func lemmaUnit(ld *Loader, cs *ContractSet, l *Lemma) (u *Unit) {
	u = &Unit{Func: "lemma " + l.Name}
	defer func() {
		if r := recover(); r != nil {
			if ce, ok := r.(cxError); ok {
				u.Err = "contract error: " + ce.msg
				return
			}
			panic(r)
		}
	}()
	g := newGen(ld, cs, nil, nil)
	g.pass = 2
	g.registerAxioms()
	fc := &FnCtx{g: g, prefix: "", closures: map[ssa.Value]*closureInfo{}, params: map[string]Val{}}
	st := g.initialState()
	fc.entry, fc.cur, fc.curReach = st, st, "true"
	env := &Env{fc: fc, g: g, vars: map[string]Val{}, state: st, oldState: st, bound: map[string]Val{}, pkg: ld.typesPkg(l.Pkg)}
	body := l.Expr
	if body.Kind == "quant" && body.Op == "forall" {
		// outermost universals become free constants so that a refutation yields witnesses
		for i, vn := range body.Vars {
			T, srt := env.resolveType(body.Types[i])
			c := g.fresh("q."+vn, srt)
			env.vars[vn] = Val{t: c, ty: T}
			u.ParamInfo = append(u.ParamInfo, ParamInfo{Name: vn, Term: c, Type: body.Types[i], Sort: srt})
		}
		body = body.Args[0]
	}
	t := env.boolExpr(body)
	g.seq++
	o := &Oblig{Name: "lemma#" + l.Name, Kind: "lemma", Func: "lemma " + l.Name, Pos: ld.fset.Position(0), seq: g.seq, reach: "true", goal: t, Clause: l.Src, blk: -1}
	o.Pos.Filename, o.Pos.Line = l.File, l.Line
	g.obligs = append(g.obligs, o)
	u.g = g
	u.render()
	u.Obligs = g.obligs
	u.Assumps = g.assumps
	return u
}
