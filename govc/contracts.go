package main

// Contract files: comment-only Go files (build tag verif) inside /repo packages.
// Blocks of `//@` lines keyed by SSA function name.  See DESIGN.md 1.2.

import (
	"fmt"
	"go/ast"
	"go/token"
	"path/filepath"
	"regexp"
	"strconv"
	"strings"
)

type Clause struct {
	Kind string // requires ensures
	Expr *CNode
	Src  string
	Name string // optional label  `ensures [L1] expr`
	File string
	Line int
}

type LoopSpec struct {
	Steps      []Clause // per-iteration claims: checked at every back edge only (never assumed, not checked at entry)
	Invariants []Clause
	Modifies   []string // extra explicit frame (unused: computed syntactically)
	Decreases  *Clause
}

type Contract struct {
	Key         string // as written: getObjState / (*T).M / full path for trusted
	Pkg         string // package path of the file the contract is in
	Trusted     bool
	Props       []string
	Tier        string // quick (default) | thorough
	Requires    []Clause
	Ensures     []Clause
	Modifies    []string // nil = unspecified (= nothing for verified functions if ModSet)
	ModSet      bool
	Loops       map[int]*LoopSpec
	RangeLoops  map[int]*LoopSpec
	NoPanic     bool
	Inline      bool
	Pure        bool                // modifies nothing & result is a function of args (uninterpreted)
	Fresh       bool                // result is a freshly allocated reference
	Assumes     []Clause            // assumptions (listed in evidence)
	Universe    map[string][]string // param -> dynamic types allowed (interfaces)
	Params      []string            // optional explicit parameter names (trusted funcs without source)
	File        string
	Line        int
	Notes       []string
	CallsFn     map[string]string    // funcparam -> "atmostonce" etc (higher order)
	FuncParams  map[string]*Contract // contracts of function-typed parameters
	GhostSets   []GhostSet
	DynCall     *Contract // frame assumed for dynamic calls
	Unreachable []string  // names of return covers that are legitimately dead, e.g. return@1
	SplitPosts  bool      // post and frame obligations per return statement (large functions)
	TrustPre    []string  // callees (short names) whose preconditions are assumed, not proved, at the call sites in this function
	Private     []string  // heap keys (modifies syntax) that calls without a contract are assumed not to change, see private.go
	Opaque      []string  // callees (by short name) treated as unknown calls inside this function: full havoc, no use of their contract
	Uses        []string  // lemmas assumed in this function
}

type SpecFn struct {
	Name   string
	Params []string
	PTypes []string
	Ret    string
	Body   *CNode
	Src    string
	Pkg    string
}

type GhostVar struct {
	Name string
	Type string
	Pkg  string
}

type Lemma struct {
	Name   string
	Expr   *CNode
	Src    string
	Pkg    string
	Props  []string
	File   string
	Line   int
	Axiom  bool   // assumed, listed in trusted base
	Expect string // "" = must be valid ; "sat" = known finding style
}

type UFunc struct {
	Name string
	Sig  string // SMT signature "(sorts) ret"
	Ret  string
}

type SMTAxiom struct {
	Name string
	Text string
	For  []string // restrict to units of these function keys (empty = wherever the ufunc is applied)
}

type LockInv struct {
	Type     string // struct type name (package-relative)
	Field    string // lock field
	Pkg      string
	Protects []string // Type.f | ghost variable
	Self     string
	Inv      *CNode
	Src      string
	NoHavoc  bool   // lockonly: lock-held discipline without interference havoc (sequential contracts)
	Guar     *CNode // optional two-state guarantee G(old, new): reflexive, transitive
	GuarSrc  string
}

type GhostSet struct {
	When string // unlock | return
	Var  string
	Expr *CNode
	Src  string
}

type ContractSet struct {
	ChanGhosts map[string]string   // pkg::Type.field -> ghost seq variable
	ChanCounts map[string]string   // pkg::Type.field -> ghost map[ref]int counting receives per owner object
	LockInvs   map[string]*LockInv // pkg::Type.field
	UFuncs     map[string]*UFunc
	Axioms     []*SMTAxiom
	Funcs      map[string]*Contract // key: pkgpath + "::" + Key  (trusted: Key only)
	Specs      map[string]*SpecFn
	Ghosts     map[string]*GhostVar
	Lemmas     []*Lemma
	PurePkgs   []string
	Errors     []string
}

func newContractSet() *ContractSet {
	return &ContractSet{ChanGhosts: map[string]string{}, ChanCounts: map[string]string{}, LockInvs: map[string]*LockInv{}, UFuncs: map[string]*UFunc{}, Funcs: map[string]*Contract{}, Specs: map[string]*SpecFn{}, Ghosts: map[string]*GhostVar{}}
}

var clauseKw = map[string]bool{"props": true, "tier": true, "requires": true, "ensures": true, "modifies": true, "loop": true,
	"panics": true, "inline": true, "pure": true, "assumes": true, "universe": true, "fresh": true, "params": true, "note": true, "funcparam": true, "ghostset": true, "rangeloop": true, "unreachable": true, "dyncall": true, "opaque": true, "private": true, "splitposts": true, "trustpre": true, "uses": true}

var topKw = map[string]bool{"chancount": true, "changhost": true, "lockonly": true, "lockinv": true, "lockguar": true, "ufunc": true, "smtaxiom": true, "func": true, "trusted": true, "spec": true, "ghost": true, "lemma": true, "axiom": true, "purepkg": true}

type rawLine struct {
	text string
	file string
	line int
}

// collectLines extracts //@ lines from a file's comments.
func collectLines(fset *token.FileSet, f *ast.File) []rawLine {
	var out []rawLine
	for _, cg := range f.Comments {
		for _, c := range cg.List {
			t := c.Text
			if strings.HasPrefix(t, "//@") {
				p := fset.Position(c.Pos())
				body := t[3:]
				// strip trailing `// comment` that is outside strings
				body = stripTrailingComment(body)
				out = append(out, rawLine{body, p.Filename, p.Line})
			}
		}
	}
	return out
}

func stripTrailingComment(s string) string {
	inStr := false
	for i := 0; i+1 < len(s); i++ {
		if s[i] == '"' {
			inStr = !inStr
		}
		if !inStr && s[i] == '/' && s[i+1] == '/' {
			return s[:i]
		}
	}
	return s
}

var labelRe = regexp.MustCompile(`^\[([A-Za-z0-9_.\-]+)\]\s*(.*)$`)

func (cs *ContractSet) parseFile(fset *token.FileSet, f *ast.File, pkgPath string) {
	lines := collectLines(fset, f)
	// merge continuation lines
	type item struct {
		kw   string
		rest string
		file string
		line int
	}
	var items []item
	for _, l := range lines {
		t := strings.TrimSpace(l.text)
		if t == "" {
			continue
		}
		first := t
		if i := strings.IndexAny(t, " \t"); i >= 0 {
			first = t[:i]
		}
		if topKw[first] || clauseKw[first] {
			items = append(items, item{first, strings.TrimSpace(t[len(first):]), l.file, l.line})
		} else if len(items) > 0 {
			items[len(items)-1].rest += " " + t
		} else {
			cs.Errors = append(cs.Errors, fmt.Sprintf("%s:%d: stray contract line %q", l.file, l.line, t))
		}
	}
	var cur *Contract
	errf := func(it item, format string, a ...any) {
		cs.Errors = append(cs.Errors, fmt.Sprintf("%s:%d: ", filepath.Base(it.file), it.line)+fmt.Sprintf(format, a...))
	}
	parse := func(it item, src string) *CNode {
		n, err := parseCExpr(src)
		if err != nil {
			errf(it, "%v", err)
			return &CNode{Kind: "bool", Name: "true"}
		}
		return n
	}
	mkClause := func(it item, kind string) Clause {
		src := it.rest
		name := ""
		if m := labelRe.FindStringSubmatch(src); m != nil {
			name, src = m[1], m[2]
		}
		return Clause{Kind: kind, Expr: parse(it, src), Src: src, Name: name, File: it.file, Line: it.line}
	}
	for _, it := range items {
		switch it.kw {
		case "func", "trusted":
			key := it.rest
			tr := false
			if it.kw == "trusted" {
				tr = true
				key = strings.TrimSpace(strings.TrimPrefix(key, "func"))
			}
			cur = &Contract{Key: key, Pkg: pkgPath, Trusted: tr, Loops: map[int]*LoopSpec{}, File: it.file, Line: it.line, Tier: "quick", Universe: map[string][]string{}}
			k := pkgPath + "::" + key
			if tr && strings.Contains(key, "/") {
				k = key
			}
			if _, dup := cs.Funcs[k]; dup {
				errf(it, "duplicate contract for %s", key)
			}
			cs.Funcs[k] = cur
		case "spec":
			// name(p T, q U) R = expr
			m := regexp.MustCompile(`^([A-Za-z0-9_]+)\(([^)]*)\)\s*([A-Za-z0-9_.\[\]\*]*)\s*=\s*(.*)$`).FindStringSubmatch(it.rest)
			if m == nil {
				errf(it, "bad spec %q", it.rest)
				continue
			}
			sf := &SpecFn{Name: m[1], Ret: m[3], Src: m[4], Pkg: pkgPath}
			// params: groups "a, b T"
			var pend []string
			for _, p := range strings.Split(m[2], ",") {
				p = strings.TrimSpace(p)
				if p == "" {
					continue
				}
				fs := strings.Fields(p)
				if len(fs) == 1 {
					pend = append(pend, fs[0])
				} else {
					pend = append(pend, fs[0])
					for _, n := range pend {
						sf.Params = append(sf.Params, n)
						sf.PTypes = append(sf.PTypes, fs[1])
					}
					pend = nil
				}
			}
			sf.Body = parse(it, m[4])
			cs.Specs[sf.Name] = sf
			cur = nil
		case "ghost":
			fs := strings.Fields(it.rest)
			if len(fs) < 3 || fs[0] != "var" {
				errf(it, "bad ghost decl")
				continue
			}
			cs.Ghosts[fs[1]] = &GhostVar{Name: fs[1], Type: strings.Join(fs[2:], " "), Pkg: pkgPath}
			cur = nil
		case "lemma", "axiom":
			i := strings.Index(it.rest, ":")
			if i < 0 {
				errf(it, "bad lemma")
				continue
			}
			head := strings.Fields(it.rest[:i])
			lm := &Lemma{Name: head[0], Src: strings.TrimSpace(it.rest[i+1:]), Pkg: pkgPath, File: it.file, Line: it.line, Axiom: it.kw == "axiom"}
			for _, h := range head[1:] {
				if strings.HasPrefix(h, "C") {
					lm.Props = append(lm.Props, h)
				}
			}
			lm.Expr = parse(it, lm.Src)
			cs.Lemmas = append(cs.Lemmas, lm)
			cur = nil
		case "chancount":
			// chancount Type.field ghostMap : a receive from the channel stored in Type.field of object o increments ghostMap[o]
			fs := strings.Fields(it.rest)
			if len(fs) != 2 {
				errf(it, "bad chancount")
				continue
			}
			cs.ChanCounts[pkgPath+"::"+fs[0]] = fs[1]
			cur = nil
		case "changhost":
			// changhost Type.field ghostSeq : a send on the channel stored in Type.field appends to ghostSeq
			fs := strings.Fields(it.rest)
			if len(fs) != 2 {
				errf(it, "bad changhost")
				continue
			}
			cs.ChanGhosts[pkgPath+"::"+fs[0]] = fs[1]
			cur = nil
		case "lockinv", "lockonly":
			// lockinv T.lock protects T.f, ghost self x : inv
			if it.kw == "lockonly" && !strings.Contains(it.rest, ":") {
				it.rest += " : true"
			}
			i := strings.Index(it.rest, ":")
			if i < 0 {
				errf(it, "bad lockinv")
				continue
			}
			head := strings.Fields(strings.ReplaceAll(it.rest[:i], ",", " "))
			if len(head) < 2 || !strings.Contains(head[0], ".") {
				errf(it, "bad lockinv head")
				continue
			}
			li := &LockInv{Pkg: pkgPath, Self: "self", Src: strings.TrimSpace(it.rest[i+1:]), NoHavoc: it.kw == "lockonly"}
			dot := strings.Index(head[0], ".")
			li.Type, li.Field = head[0][:dot], head[0][dot+1:]
			mode := ""
			for _, h := range head[1:] {
				switch h {
				case "protects", "self":
					mode = h
				default:
					if mode == "protects" {
						li.Protects = append(li.Protects, h)
					} else if mode == "self" {
						li.Self = h
					}
				}
			}
			li.Inv = parse(it, li.Src)
			cs.LockInvs[pkgPath+"::"+li.Type+"."+li.Field] = li
			cur = nil
		case "lockguar":
			// lockguar T.lock : G   (old(...) refers to the state at Lock)
			i := strings.Index(it.rest, ":")
			if i < 0 {
				errf(it, "bad lockguar")
				continue
			}
			k := pkgPath + "::" + strings.TrimSpace(it.rest[:i])
			li := cs.LockInvs[k]
			if li == nil {
				errf(it, "lockguar without lockinv %s", k)
				continue
			}
			li.GuarSrc = strings.TrimSpace(it.rest[i+1:])
			li.Guar = parse(it, li.GuarSrc)
			cur = nil
		case "ufunc":
			// ufunc name (sorts) ret
			i := strings.Index(it.rest, "(")
			j := strings.LastIndex(it.rest, ")")
			if i < 0 || j < i {
				errf(it, "bad ufunc")
				continue
			}
			name := strings.TrimSpace(it.rest[:i])
			cs.UFuncs[name] = &UFunc{Name: name, Sig: strings.TrimSpace(it.rest[i:]), Ret: strings.TrimSpace(it.rest[j+1:])}
			cur = nil
		case "smtaxiom":
			i := strings.Index(it.rest, ":")
			if i < 0 {
				errf(it, "bad smtaxiom")
				continue
			}
			hd := strings.Fields(it.rest[:i])
			ax := &SMTAxiom{Name: hd[0], Text: strings.TrimSpace(it.rest[i+1:])}
			if len(hd) > 2 && hd[1] == "for" {
				ax.For = hd[2:]
			}
			cs.Axioms = append(cs.Axioms, ax)
			cur = nil
		case "purepkg":
			cs.PurePkgs = append(cs.PurePkgs, strings.Fields(it.rest)...)
			cur = nil
		default:
			if cur == nil {
				errf(it, "clause %s outside a func block", it.kw)
				continue
			}
			switch it.kw {
			case "props":
				cur.Props = append(cur.Props, strings.Fields(strings.ReplaceAll(it.rest, ",", " "))...)
			case "tier":
				cur.Tier = strings.TrimSpace(it.rest)
			case "requires":
				cur.Requires = append(cur.Requires, mkClause(it, "requires"))
			case "assumes":
				cur.Assumes = append(cur.Assumes, mkClause(it, "assumes"))
			case "ensures":
				cur.Ensures = append(cur.Ensures, mkClause(it, "ensures"))
			case "modifies":
				cur.ModSet = true
				if strings.HasPrefix(strings.TrimSpace(it.rest), "* except") {
					cur.Modifies = append(cur.Modifies, strings.ReplaceAll(strings.TrimSpace(it.rest), ",", " "))
				} else if strings.TrimSpace(it.rest) != "nothing" {
					for _, m := range splitTop(it.rest) {
						if m = strings.TrimSpace(m); m != "" {
							cur.Modifies = append(cur.Modifies, m)
						}
					}
				}
			case "panics":
				cur.NoPanic = strings.TrimSpace(it.rest) == "never"
			case "inline":
				cur.Inline = true
			case "pure":
				cur.Pure = true
				cur.ModSet = true
			case "fresh":
				cur.Fresh = true
			case "params":
				cur.Params = strings.Fields(strings.ReplaceAll(it.rest, ",", " "))
			case "note":
				cur.Notes = append(cur.Notes, it.rest)
			case "dyncall":
				// dyncall modifies ... : frame assumed for calls through unknown function values in this function
				if strings.HasPrefix(strings.TrimSpace(it.rest), "results ") {
					// dyncall results N ensures <expr>: assumed for dynamic calls with N results
					fs := strings.Fields(it.rest)
					n, _ := strconv.Atoi(fs[1])
					i := strings.Index(it.rest, "ensures")
					if i < 0 || cur.DynCall == nil {
						errf(it, "bad dyncall results clause (needs a preceding dyncall modifies)")
						continue
					}
					it2 := it
					it2.rest = strings.TrimSpace(it.rest[i+7:])
					if cur.DynCall.FuncParams == nil {
						cur.DynCall.FuncParams = map[string]*Contract{}
					}
					key := fmt.Sprintf("results%d", n)
					sub := cur.DynCall.FuncParams[key]
					if sub == nil {
						sub = &Contract{Key: cur.DynCall.Key, Pkg: cur.Pkg, Trusted: true, ModSet: true, Modifies: cur.DynCall.Modifies, Loops: map[int]*LoopSpec{}, Universe: map[string][]string{}}
						cur.DynCall.FuncParams[key] = sub
					}
					sub.Ensures = append(sub.Ensures, mkClause(it2, "ensures"))
					continue
				}
				rest := strings.TrimSpace(strings.TrimPrefix(strings.TrimSpace(it.rest), "modifies"))
				cur.DynCall = &Contract{Key: cur.Key + ".dyncall", Pkg: cur.Pkg, Trusted: true, Loops: map[int]*LoopSpec{}, Universe: map[string][]string{}, ModSet: true}
				if strings.HasPrefix(rest, "* except") {
					cur.DynCall.Modifies = []string{strings.ReplaceAll(rest, ",", " ")}
				} else if rest != "nothing" {
					for _, m := range splitTop(rest) {
						if m = strings.TrimSpace(m); m != "" {
							cur.DynCall.Modifies = append(cur.DynCall.Modifies, m)
						}
					}
				}
			case "unreachable":
				cur.Unreachable = append(cur.Unreachable, strings.Fields(it.rest)...)
			case "trustpre":
				cur.TrustPre = append(cur.TrustPre, strings.Fields(strings.ReplaceAll(it.rest, ",", " "))...)
			case "splitposts":
				cur.SplitPosts = true
			case "private":
				for _, m := range splitTop(it.rest) {
					if m = strings.TrimSpace(m); m != "" {
						cur.Private = append(cur.Private, strings.Fields(m)...)
					}
				}
			case "uses":
				for _, m := range splitTop(it.rest) {
					if m = strings.TrimSpace(m); m != "" {
						cur.Uses = append(cur.Uses, m)
					}
				}
			case "opaque":
				cur.Opaque = append(cur.Opaque, strings.Fields(strings.ReplaceAll(it.rest, ",", " "))...)
			case "ghostset":
				// ghostset unlock|return VAR := expr
				fs := strings.Fields(it.rest)
				i := strings.Index(it.rest, ":=")
				if len(fs) < 4 || i < 0 {
					errf(it, "bad ghostset")
					continue
				}
				src := strings.TrimSpace(it.rest[i+2:])
				cur.GhostSets = append(cur.GhostSets, GhostSet{When: fs[0], Var: fs[1], Expr: parse(it, src), Src: src})
			case "funcparam":
				// funcparam NAME(args) | funcparam NAME requires|ensures|modifies ...
				fs := strings.Fields(it.rest)
				if len(fs) == 0 {
					errf(it, "bad funcparam")
					continue
				}
				if cur.FuncParams == nil {
					cur.FuncParams = map[string]*Contract{}
				}
				head := fs[0]
				name := head
				var pnames []string
				if i := strings.Index(head, "("); i >= 0 {
					name = head[:i]
					j := strings.Index(it.rest, ")")
					pl := it.rest[strings.Index(it.rest, "(")+1 : j]
					pnames = strings.Fields(strings.ReplaceAll(pl, ",", " "))
				}
				fp := cur.FuncParams[name]
				if fp == nil {
					fp = &Contract{Key: cur.Key + "." + name, Pkg: cur.Pkg, Trusted: true, Loops: map[int]*LoopSpec{}, File: it.file, Line: it.line, Universe: map[string][]string{}, ModSet: true}
					cur.FuncParams[name] = fp
				}
				if pnames != nil {
					fp.Params = pnames
					continue
				}
				if len(fs) < 2 {
					continue
				}
				rest := strings.TrimSpace(strings.TrimPrefix(strings.TrimSpace(strings.TrimPrefix(it.rest, fs[0])), fs[1]))
				it2 := it
				it2.rest = rest
				switch fs[1] {
				case "requires":
					fp.Requires = append(fp.Requires, mkClause(it2, "requires"))
				case "ensures":
					fp.Ensures = append(fp.Ensures, mkClause(it2, "ensures"))
				case "modifies":
					if rest != "nothing" {
						for _, m := range splitTop(rest) {
							if m = strings.TrimSpace(m); m != "" {
								fp.Modifies = append(fp.Modifies, m)
							}
						}
					}
				default:
					errf(it, "bad funcparam clause %s", fs[1])
				}
			case "universe":
				fs := strings.Fields(strings.ReplaceAll(it.rest, ",", " "))
				if len(fs) >= 2 {
					cur.Universe[fs[0]] = fs[1:]
				}
			case "loop", "rangeloop":
				fs := strings.Fields(it.rest)
				if len(fs) < 3 {
					errf(it, "bad loop clause")
					continue
				}
				n, err := strconv.Atoi(fs[0])
				if err != nil {
					errf(it, "bad loop number")
					continue
				}
				tbl := cur.Loops
				if it.kw == "rangeloop" {
					if cur.RangeLoops == nil {
						cur.RangeLoops = map[int]*LoopSpec{}
					}
					tbl = cur.RangeLoops
				}
				ls := tbl[n]
				if ls == nil {
					ls = &LoopSpec{}
					tbl[n] = ls
				}
				rest := strings.TrimSpace(strings.TrimPrefix(strings.TrimSpace(strings.TrimPrefix(it.rest, fs[0])), fs[1]))
				it2 := it
				it2.rest = rest
				switch fs[1] {
				case "invariant":
					ls.Invariants = append(ls.Invariants, mkClause(it2, "invariant"))
				case "step":
					ls.Steps = append(ls.Steps, mkClause(it2, "step"))
				case "decreases":
					c := mkClause(it2, "decreases")
					ls.Decreases = &c
				case "modifies":
					ls.Modifies = append(ls.Modifies, strings.Split(rest, ",")...)
				default:
					errf(it, "bad loop clause kind %s", fs[1])
				}
			}
		}
	}
}

// splitTop splits at commas that are outside parentheses, brackets and string literals.
func splitTop(s string) []string {
	var out []string
	depth := 0
	inStr := false
	start := 0
	for i := 0; i < len(s); i++ {
		c := s[i]
		if c == '"' {
			inStr = !inStr
		}
		if inStr {
			continue
		}
		switch c {
		case '(', '[':
			depth++
		case ')', ']':
			depth--
		case ',':
			if depth == 0 {
				out = append(out, s[start:i])
				start = i + 1
			}
		}
	}
	out = append(out, s[start:])
	return out
}
