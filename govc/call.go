package main

import (
	"fmt"
	"go/token"
	"go/types"
	"os"
	"strings"

	"golang.org/x/tools/go/ssa"
)

// pure (modifies-nothing) external package prefixes: logging, formatting, metrics, time.
var purePkgPrefixes = []string{
	"go.uber.org/zap", "github.com/zilliztech/milvus-cdc/core/log", "fmt", "strings", "strconv", "errors",
	"time", "github.com/cockroachdb/errors", "github.com/prometheus/", "math", "unicode", "bytes", "sort.Search",
	"github.com/milvus-io/milvus/pkg/log", "path", "encoding/base64", "regexp", "context", "github.com/samber/lo.Ternary",
	"github.com/milvus-io/milvus/pkg/util/merr", "github.com/milvus-io/milvus/pkg/util/tsoutil", "os.Getenv", "sync/atomic.(*Bool).Load",
	"github.com/google/uuid", "reflect.TypeOf", "reflect.DeepEqual", "github.com/milvus-io/milvus/pkg/util/funcutil.ToPhysicalChannel",
	"github.com/milvus-io/milvus/pkg/util/funcutil.GetVirtualChannel", "google.golang.org/protobuf/proto.Marshal", "google.golang.org/protobuf/proto.Size",
	"github.com/golang/protobuf/proto.Marshal", "github.com/golang/protobuf/proto.Size", "github.com/zilliztech/milvus-cdc/server/metrics",
	"github.com/goccy/go-json.Marshal", "encoding/json.Marshal", "github.com/goccy/go-json.Unmarshal", "encoding/json.Unmarshal",
	"github.com/goccy/go-json.NewEncoder", "encoding/json.NewEncoder", "io/ioutil.ReadAll", "io.ReadAll",
	"github.com/milvus-io/milvus/pkg/util/lock", "github.com/milvus-io/milvus/pkg/util/typeutil", "github.com/milvus-io/milvus/pkg/util/funcutil",
	"github.com/milvus-io/milvus/pkg/util/requestutil",
	"github.com/milvus-io/milvus/pkg/util/retry.Attempts", "github.com/milvus-io/milvus/pkg/util/retry.Sleep", "github.com/milvus-io/milvus/pkg/util/retry.MaxSleepTime",
}

// noReturnNames: logging calls that end the goroutine / process.
var noReturnNames = map[string]bool{"Panic": true, "Fatal": true, "Panicf": true, "Fatalf": true, "DPanic": false}

var msgstreamPureMethods = map[string]bool{"Type": true, "Size": true, "BeginTs": true, "EndTs": true, "ID": true, "Position": true, "HashKeys": true,
	"TraceCtx": true, "GetBase": true, "GetCollectionID": true, "GetShardName": true, "Marshal": true, "String": true, "GetPartitionName": true, "GetCollectionName": true, "GetDbName": true}

func (g *Gen) isPureExternal(name string) bool {
	n := strings.TrimPrefix(name, "(*")
	n = strings.TrimPrefix(n, "(")
	if name == "(error).Error" {
		g.trusted["assumed: Error() methods of error values have no effect on the verified state"] = true
		return true
	}
	if strings.HasPrefix(n, "github.com/milvus-io/milvus/pkg/mq/msgstream.") && msgstreamPureMethods[lastPart(name)] {
		return true
	}
	for _, p := range purePkgPrefixes {
		if strings.HasPrefix(n, p) {
			return true
		}
	}
	for _, p := range g.cs.PurePkgs {
		if strings.HasPrefix(n, p) {
			return true
		}
	}
	return false
}

func (g *Gen) findContract(f *ssa.Function) *Contract {
	if f == nil {
		return nil
	}
	full := f.String()
	if c, ok := g.cs.Funcs[full]; ok {
		return c
	}
	var pkg string
	if f.Pkg != nil {
		pkg = f.Pkg.Pkg.Path()
	} else if f.Parent() != nil && f.Parent().Pkg != nil {
		pkg = f.Parent().Pkg.Pkg.Path()
	} else if f.Object() != nil && f.Object().Pkg() != nil {
		pkg = f.Object().Pkg().Path()
	}
	if pkg != "" {
		rel := strings.ReplaceAll(full, pkg+".", "")
		if c, ok := g.cs.Funcs[pkg+"::"+rel]; ok {
			return c
		}
		// generic instance: strip type arguments
		if i := strings.Index(rel, "["); i >= 0 {
			j := strings.LastIndex(rel, "]")
			if j > i {
				gen := rel[:i] + rel[j+1:]
				if c, ok := g.cs.Funcs[pkg+"::"+gen]; ok {
					return c
				}
				if c, ok := g.cs.Funcs[strings.ReplaceAll(full, rel, gen)]; ok {
					return c
				}
			}
		}
	}
	if i := strings.Index(full, "["); i >= 0 {
		j := strings.LastIndex(full, "]")
		if j > i {
			if c, ok := g.cs.Funcs[full[:i]+full[j+1:]]; ok {
				return c
			}
		}
	}
	return nil
}

func (g *Gen) findIfaceContract(recv types.Type, method string) *Contract {
	full := "(" + types.TypeString(recv, nil) + ")." + method
	if c, ok := g.cs.Funcs[full]; ok {
		return c
	}
	if n, ok := recv.(*types.Named); ok && n.Obj().Pkg() != nil {
		rel := "(" + n.Obj().Name() + ")." + method
		if c, ok := g.cs.Funcs[n.Obj().Pkg().Path()+"::"+rel]; ok {
			return c
		}
	}
	return nil
}

// sigNames returns parameter names (receiver first when present) and result names.
func sigNames(sig *types.Signature, c *Contract, withRecv bool) (ps []string, rs []string) {
	if withRecv && sig.Recv() != nil {
		n := sig.Recv().Name()
		if n == "" || n == "_" {
			n = "recv"
		}
		ps = append(ps, n)
	}
	for i := 0; i < sig.Params().Len(); i++ {
		n := sig.Params().At(i).Name()
		if n == "" || n == "_" {
			n = fmt.Sprintf("p%d", i)
		}
		ps = append(ps, n)
	}
	if c != nil && len(c.Params) > 0 {
		ps = append([]string{}, c.Params...)
	}
	for i := 0; i < sig.Results().Len(); i++ {
		rs = append(rs, sig.Results().At(i).Name())
	}
	return
}

func (fc *FnCtx) call(ins ssa.Instruction, cc *ssa.CallCommon, res ssa.Value) {
	g := fc.g
	if b, ok := cc.Value.(*ssa.Builtin); ok {
		fc.builtin(ins, b, cc, res)
		return
	}
	var args []Val
	for _, a := range cc.Args {
		args = append(args, fc.term(a))
	}
	sig := cc.Signature()
	setResult := func(rs []Val) {
		if res == nil {
			return
		}
		if sig.Results().Len() == 1 {
			fc.vals[res] = Val{t: rs[0].t, ty: res.Type()}
		} else if sig.Results().Len() > 1 {
			fc.vals[res] = Val{ty: res.Type(), tuple: rs}
		}
	}
	if cc.IsInvoke() {
		recv := fc.term(cc.Value)
		if g.isPureExternal("(" + types.TypeString(cc.Value.Type(), nil) + ")." + cc.Method.Name()) {
			// interface values of logging/metrics libraries (e.g. prometheus gauges) are never nil
			fc.assume(fmt.Sprintf("(not (= (itag %s) 0))", recv.t), "library interface value non-nil")
		} else {
			fc.safety("nil-iface", posOf(ins), fmt.Sprintf("(not (= (itag %s) 0))", recv.t))
		}
		c := g.findIfaceContract(cc.Value.Type(), cc.Method.Name())
		name := "(" + types.TypeString(cc.Value.Type(), nil) + ")." + cc.Method.Name()
		all := append([]Val{recv}, args...)
		if c != nil {
			setResult(fc.applyContract(ins, c, name, sig, all, true, cc))
			return
		}
		if fc.specialInvoke(ins, cc, recv, args, setResult) {
			return
		}
		setResult(fc.unknownCall(ins, name, sig, g.isPureExternal(name)))
		return
	}
	callee := cc.StaticCallee()
	var ci *closureInfo
	if callee == nil {
		if x, ok := fc.closures[cc.Value]; ok {
			callee = x.fn
			ci = x
		}
	} else if x, ok := fc.closures[cc.Value]; ok {
		ci = x
	}
	if callee == nil {
		// dynamic call through an unknown function value
		fv := fc.term(cc.Value)
		if types.TypeString(cc.Value.Type(), nil) == "context.CancelFunc" {
			fc.g.trusted["context.CancelFunc calls have no effect on the verified state"] = true
			setResult(nil)
			return
		}
		if fc.funcResultCall(ins, cc, args, setResult) {
			return
		}
		// calls through nil function values are not part of the no-panic sweep (function-typed fields and
		// dispatch tables are filled by constructors); listed as an assumption
		fc.g.note("dynamic calls: the function value is assumed non-nil")
		if fc.funcParamCall(ins, cc, fv, args, setResult) {
			return
		}
		if fc.funcFieldCall(ins, cc, args, setResult) {
			return
		}
		for c := fc; c != nil; c = c.parent {
			if c.c != nil && c.c.DynCall != nil {
				fc.g.trusted["assumed: calls through function values in "+c.c.Key+" change only: "+strings.Join(c.c.DynCall.Modifies, ", ")] = true
				dc := c.c.DynCall
				if sub, ok := dc.FuncParams[fmt.Sprintf("results%d", sig.Results().Len())]; ok {
					dc = sub
				}
				setResult(fc.applyContract(ins, dc, c.c.Key+".dyncall", sig, nil, false, nil))
				return
			}
		}
		setResult(fc.unknownCall(ins, "dynamic call "+cc.Value.Name(), sig, false))
		return
	}
	name := callee.String()
	if fc.special(ins, callee, cc, args, setResult) {
		return
	}
	c := g.findContract(callee)
	if c != nil {
		root := fc
		for root.parent != nil {
			root = root.parent
		}
		if root.c != nil && contains(root.c.Opaque, lastPart(strings.ReplaceAll(name, ")", ""))) {
			// the caller's contract does not rely on this callee: unknown call (everything havocked, no precondition)
			setResult(fc.unknownCall(ins, name, sig, false))
			return
		}
	}
	if c != nil && !c.Inline {
		// a closure under contract: its captured variables are named in the contract (as pointers to the variables)
		fc.pendingClosure = nil
		if ci != nil && ci.fn == callee {
			fc.pendingClosure = ci
		}
		fc.calleeFn = callee
		setResult(fc.applyContract(ins, c, name, callee.Signature, args, true, cc))
		fc.calleeFn = nil
		fc.pendingClosure = nil
		return
	}
	if callee.Blocks != nil && (callee.Parent() != nil || (c != nil && c.Inline)) && fc.depth < 6 {
		setResult(fc.inline(ins, callee, c, ci, args))
		return
	}
	setResult(fc.unknownCall(ins, name, sig, g.isPureExternal(name)))
}

// unknownCall: no contract. Pure externals leave the heap alone; everything else havocs it.
func (fc *FnCtx) unknownCall(ins ssa.Instruction, name string, sig *types.Signature, pure bool) []Val {
	g := fc.g
	if noReturnNames[lastPart(name)] && (strings.Contains(name, "/log.") || strings.Contains(name, "zap.") || strings.HasPrefix(name, "log.")) {
		if fc.noPanic {
			fc.oblige("never-panics", "", posOf(ins), "false", "log.Panic / log.Fatal reached", "")
		} else {
			g.note(fmt.Sprintf("explicit panic site assumed unreachable: %s", fc.posStr(ins)))
		}
		fc.assume("false", "log.Panic/Fatal")
	}
	if pure {
		g.trusted["modifies-nothing (logging/formatting/metrics/time): "+pkgOfName(name)] = true
	} else {
		g.note("havoc (no contract): " + shortPkg(name))
		keep := map[string]string{}
		if cc := callCommonOf(ins); cc != nil && cc.IsInvoke() {
			// methods of interfaces declared outside this repository (net/http, etcd, ...) are implemented
			// outside it as well: they cannot reach the ghost state
			if n, ok := cc.Value.Type().(*types.Named); ok && n.Obj().Pkg() != nil && !strings.HasPrefix(n.Obj().Pkg().Path(), "github.com/zilliztech/milvus-cdc") {
				for _, k := range g.keyOrder {
					if ki := g.keys[k]; ki.kind == "ghost" || ki.kind == "umap" {
						keep[k] = g.get(fc.cur, k)
					}
				}
			}
		}
		if cc := callCommonOf(ins); cc != nil && !cc.IsInvoke() {
			if sc := cc.StaticCallee(); sc != nil && sc.Blocks == nil && (sc.Pkg == nil || !strings.HasPrefix(sc.Pkg.Pkg.Path(), "github.com/zilliztech/milvus-cdc")) {
				// a function of another module cannot reach the ghost state (it changes only through contracts)
				for _, k := range g.keyOrder {
					if ki := g.keys[k]; ki.kind == "ghost" || ki.kind == "umap" {
						keep[k] = g.get(fc.cur, k)
					}
				}
			}
		}
		if os.Getenv("GOVC_DEBUG") != "" {
			cc := callCommonOf(ins)
			if sc := cc.StaticCallee(); sc != nil {
				fmt.Fprintf(os.Stderr, "  sc=%s blocks=%v pkg=%v synth=%q\n", sc, sc.Blocks != nil, sc.Pkg, sc.Synthetic)
			}
			fmt.Fprintf(os.Stderr, "unknownCall %s invoke=%v keep=%d type=%T\n", name, cc != nil && cc.IsInvoke(), len(keep), func() any {
				if cc != nil {
					return cc.Value.Type()
				}
				return nil
			}())
		}
		before := fc.cur.clone()
		g.havocAllExcept(fc.cur, name, fc.privateSkip(ins))
		for k, v := range keep {
			fc.cur.m[k] = v
		}
		fc.restorePrivate(before)
	}
	var rs []Val
	for i := 0; i < sig.Results().Len(); i++ {
		rt := sig.Results().At(i).Type()
		n := g.fresh(fc.prefix+"call."+lastPart(name), g.sortOf(rt))
		if rc := g.sorts.rangeConstraint(rt, n); rc != "" {
			fc.assume(rc, "range")
		}
		rs = append(rs, Val{t: n, ty: rt})
	}
	if pure {
		// out-parameters: a pure external may still write through pointers to local variables
		if cc := callCommonOf(ins); cc != nil {
			for _, a := range cc.Args {
				x := a
				if mi, ok := a.(*ssa.MakeInterface); ok {
					x = mi.X
				}
				if al, ok := x.(*ssa.Alloc); ok {
					T := al.Type().Underlying().(*types.Pointer).Elem()
					nv := g.fresh(fc.prefix+"out."+al.Name(), g.sortOf(T))
					fc.storeWhole(fc.term(al).t, T, nv)
					if rc := g.sorts.rangeConstraint(T, nv); rc != "" {
						fc.assume(rc, "range")
					}
				}
			}
		}
	}
	if !pure {
		for _, r := range rs {
			fc.boundRefs(r.ty, r.t)
		}
	} else {
		// a pure external may allocate its result
		old := g.get(fc.cur, "$alloc")
		g.havocKey(fc.cur, "$alloc", name)
		fc.assume(fmt.Sprintf("(<= %s %s)", old, g.get(fc.cur, "$alloc")), "alloc grows")
		for _, r := range rs {
			fc.boundRefs(r.ty, r.t)
		}
	}
	return rs
}

func pkgOfName(n string) string {
	n = strings.TrimPrefix(strings.TrimPrefix(n, "("), "*")
	if i := strings.LastIndex(n, "/"); i >= 0 {
		rest := n[i+1:]
		if j := strings.Index(rest, "."); j >= 0 {
			return n[:i+1+j]
		}
	}
	if j := strings.Index(n, "."); j >= 0 {
		return n[:j]
	}
	return n
}

func lastPart(n string) string {
	if i := strings.LastIndexAny(n, "./)"); i >= 0 && i+1 < len(n) {
		return n[i+1:]
	}
	return n
}

// modTarget describes one entry of a modifies clause resolved in a call/entry environment.
type modTarget struct {
	key   string
	obj   string // "" = whole array / ghost variable
	whole bool
	fresh bool // only objects allocated by the callee (pre-existing objects keep their contents)
}

func (e *Env) resolveModifies(entries []string) (targets []modTarget, all bool) {
	g := e.g
	for _, m := range entries {
		m = strings.TrimSpace(m)
		if m == "*" {
			return nil, true
		}
		if strings.HasPrefix(m, "* except ") {
			// everything but the listed ghost variables
			for _, x := range strings.Fields(strings.TrimPrefix(m, "* except ")) {
				if gv, ok := g.cs.Ghosts[x]; ok {
					e.ghostVal(gv)
					targets = append(targets, modTarget{key: "G|" + x, whole: true})
				} else if strings.HasPrefix(x, "cells(") && strings.HasSuffix(x, ")") {
					T, _ := e.resolveType(x[6 : len(x)-1])
					targets = append(targets, modTarget{key: g.cellKey(T), whole: true})
				} else if strings.HasPrefix(x, "arrays(") && strings.HasSuffix(x, ")") {
					T, _ := e.resolveType(x[7 : len(x)-1])
					targets = append(targets, modTarget{key: g.arrKey(T), whole: true})
				} else if strings.HasPrefix(x, "umaps(") && strings.HasSuffix(x, ")") {
					kv := strings.Split(x[6:len(x)-1], ";")
					if len(kv) != 2 {
						cxFail("modifies * except %s (use umaps(K;V))", x)
					}
					K, _ := e.resolveType(strings.TrimSpace(kv[0]))
					V, _ := e.resolveType(strings.TrimSpace(kv[1]))
					kd, kvk := g.umapKeys(K, V)
					targets = append(targets, modTarget{key: kd, whole: true}, modTarget{key: kvk, whole: true})
				} else if strings.HasSuffix(x, ".*") {
					T, _ := e.resolveType(strings.TrimSuffix(x, ".*"))
					st, ok := T.Underlying().(*types.Struct)
					if !ok {
						cxFail("modifies * except %s: not a struct type", x)
					}
					for i := 0; i < st.NumFields(); i++ {
						targets = append(targets, modTarget{key: g.fieldKey(T, i), whole: true})
					}
				} else if i := strings.LastIndex(x, "."); i > 0 && e.tryResolveType(x[:i]) != nil {
					// a single field: pkg.Type.f
					T := e.tryResolveType(x[:i])
					st, ok := T.Underlying().(*types.Struct)
					if !ok {
						cxFail("modifies * except %s: not a struct type", x)
					}
					found := false
					for j := 0; j < st.NumFields(); j++ {
						if st.Field(j).Name() == x[i+1:] {
							targets = append(targets, modTarget{key: g.fieldKey(T, j), whole: true})
							found = true
						}
					}
					if !found {
						cxFail("modifies * except %s: no such field", x)
					}
				} else {
					cxFail("modifies * except %s: not a ghost variable", x)
				}
			}
			return targets, true
		}
		if _, ok := g.cs.Ghosts[m]; ok {
			gv := e.ghostVal(g.cs.Ghosts[m])
			_ = gv
			targets = append(targets, modTarget{key: "G|" + m, whole: true})
			continue
		}
		if strings.HasPrefix(m, "fresh(") && strings.HasSuffix(m, ")") {
			x := strings.TrimSpace(m[6 : len(m)-1])
			switch {
			case strings.HasSuffix(x, ".*"):
				T, _ := e.resolveType(strings.TrimSuffix(x, ".*"))
				st, ok := T.Underlying().(*types.Struct)
				if !ok {
					cxFail("modifies %s: not a struct type", m)
				}
				g.markAlloc(types.NewPointer(T))
				for i := 0; i < st.NumFields(); i++ {
					targets = append(targets, modTarget{key: g.fieldKey(T, i), whole: true, fresh: true})
				}
			case strings.HasPrefix(x, "[]"):
				T, _ := e.resolveType(x[2:])
				g.markAlloc(types.NewSlice(T))
				targets = append(targets, modTarget{key: g.arrKey(T), whole: true, fresh: true})
			case strings.HasPrefix(x, "map["):
				i := strings.Index(x, "]")
				K, _ := e.resolveType(x[4:i])
				V, _ := e.resolveType(x[i+1:])
				kd, kv := g.mapKeys(types.NewMap(K, V))
				g.markAlloc(types.NewMap(K, V))
				targets = append(targets, modTarget{key: kd, whole: true, fresh: true}, modTarget{key: kv, whole: true, fresh: true})
			default:
				cxFail("modifies %s: use fresh(T.*), fresh([]T) or fresh(map[K]V)", m)
			}
			continue
		}
		if strings.HasPrefix(m, "arrays(") && strings.HasSuffix(m, ")") {
			// backing arrays of every slice with this element type
			T, _ := e.resolveType(m[7 : len(m)-1])
			targets = append(targets, modTarget{key: g.arrKey(T), whole: true})
			continue
		}
		if strings.HasPrefix(m, "cells(") && strings.HasSuffix(m, ")") {
			// every memory-resident variable of this type (captured variables of closures, address-taken locals)
			T, _ := e.resolveType(m[6 : len(m)-1])
			targets = append(targets, modTarget{key: g.cellKey(T), whole: true})
			continue
		}
		if strings.HasPrefix(m, "maps(") && strings.HasSuffix(m, ")") {
			// contents of every Go map of this type: maps(K;V)
			kv := strings.Split(m[5:len(m)-1], ";")
			if len(kv) != 2 {
				cxFail("bad modifies %s (use maps(K;V))", m)
			}
			K, _ := e.resolveType(strings.TrimSpace(kv[0]))
			V, _ := e.resolveType(strings.TrimSpace(kv[1]))
			kd, kvk := g.mapKeys(types.NewMap(K, V))
			targets = append(targets, modTarget{key: kd, whole: true}, modTarget{key: kvk, whole: true})
			continue
		}
		if strings.HasPrefix(m, "umaps(") && strings.HasSuffix(m, ")") {
			// every util.Map[K,V] object: umaps(K;V)
			kv := strings.Split(m[6:len(m)-1], ";")
			if len(kv) != 2 {
				cxFail("bad modifies %s (use umaps(K;V))", m)
			}
			K, _ := e.resolveType(strings.TrimSpace(kv[0]))
			V, _ := e.resolveType(strings.TrimSpace(kv[1]))
			kd, kvk := g.umapKeys(K, V)
			targets = append(targets, modTarget{key: kd, whole: true}, modTarget{key: kvk, whole: true})
			continue
		}
		if strings.HasPrefix(m, "um(") && strings.HasSuffix(m, ")") {
			// ghost content of a util.Map field: um(x.f)
			n, err := parseCExpr(m[3 : len(m)-1])
			if err != nil || n.Kind != "field" {
				cxFail("bad modifies %s", m)
			}
			d := e.call(&CNode{Kind: "call", Name: "umDom", Args: []*CNode{n}})
			_ = d
			base := e.expr(n.Args[0])
			T := base.ty
			if p, ok := T.Underlying().(*types.Pointer); ok {
				T = p.Elem()
			}
			st := T.Underlying().(*types.Struct)
			for i := 0; i < st.NumFields(); i++ {
				if st.Field(i).Name() == n.Name {
					mt := st.Field(i).Type().(*types.Named)
					kd, kv := g.umapKeys(mt.TypeArgs().At(0), mt.TypeArgs().At(1))
					obj := e.fc.interiorTerm(base.t, T, i)
					targets = append(targets, modTarget{key: kd, obj: obj}, modTarget{key: kv, obj: obj})
				}
			}
			continue
		}
		if strings.HasSuffix(m, ".*") {
			T, _ := e.resolveType(strings.TrimSuffix(m, ".*"))
			st, ok := T.Underlying().(*types.Struct)
			if !ok {
				cxFail("modifies %s: not a struct type", m)
			}
			for i := 0; i < st.NumFields(); i++ {
				targets = append(targets, modTarget{key: g.fieldKey(T, i), whole: true})
			}
			continue
		}
		if strings.HasSuffix(m, "[*]") {
			n, err := parseCExpr(strings.TrimSuffix(m, "[*]"))
			if err != nil {
				cxFail("bad modifies %s", m)
			}
			v := e.expr(n)
			switch u := v.ty.Underlying().(type) {
			case *types.Map:
				kd, kv := g.mapKeys(u)
				targets = append(targets, modTarget{key: kd, obj: v.t}, modTarget{key: kv, obj: v.t})
			case *types.Slice:
				targets = append(targets, modTarget{key: g.arrKey(u.Elem()), obj: fmt.Sprintf("(sarr %s)", v.t)})
			default:
				cxFail("modifies %s: not a map or slice", m)
			}
			continue
		}
		n, err := parseCExpr(m)
		if err != nil || n.Kind != "field" {
			cxFail("bad modifies entry %q", m)
		}
		// Type.f (whole array) or expr.f (object precise)
		if n.Args[0].Kind == "ident" {
			if _, isVar := e.vars[n.Args[0].Name]; !isVar {
				if _, isB := e.bound[n.Args[0].Name]; !isB {
					T, _ := e.resolveType(n.Args[0].Name)
					st, ok := T.Underlying().(*types.Struct)
					if !ok {
						cxFail("modifies %s: not a struct type", m)
					}
					found := false
					for i := 0; i < st.NumFields(); i++ {
						if st.Field(i).Name() == n.Name || n.Name == "*" {
							targets = append(targets, modTarget{key: g.fieldKey(T, i), whole: true})
							found = true
						}
					}
					if !found {
						cxFail("modifies %s: no such field", m)
					}
					continue
				}
			}
		}
		if q := n.Args[0]; q.Kind == "field" && q.Args[0].Kind == "ident" {
			// pkg.Type.f (whole array)
			_, isVar := e.vars[q.Args[0].Name]
			_, isB := e.bound[q.Args[0].Name]
			if T := e.tryResolveType(q.Args[0].Name + "." + q.Name); !isVar && !isB && T != nil {
				if st, ok := T.Underlying().(*types.Struct); ok {
					found := false
					for i := 0; i < st.NumFields(); i++ {
						if st.Field(i).Name() == n.Name || n.Name == "*" {
							targets = append(targets, modTarget{key: g.fieldKey(T, i), whole: true})
							found = true
						}
					}
					if !found {
						cxFail("modifies %s: no such field", m)
					}
					continue
				}
			}
		}
		base := e.expr(n.Args[0])
		T := base.ty
		p, ok := T.Underlying().(*types.Pointer)
		if !ok {
			cxFail("modifies %s: base is not a pointer", m)
		}
		T = p.Elem()
		st := T.Underlying().(*types.Struct)
		found := false
		for i := 0; i < st.NumFields(); i++ {
			if st.Field(i).Name() == n.Name {
				targets = append(targets, modTarget{key: g.fieldKey(T, i), obj: base.t})
				found = true
			}
		}
		if !found {
			cxFail("modifies %s: no such field", m)
		}
	}
	return targets, false
}

// applyContract: assert pre, havoc frame, assume post.
func (fc *FnCtx) applyContract(ins ssa.Instruction, c *Contract, name string, sig *types.Signature, args []Val, withRecv bool, cc *ssa.CallCommon) []Val {
	g := fc.g
	if c.Trusted {
		g.trusted["trusted contract: "+shortPkg(c.Key)] = true
	}
	pn, rn := sigNames(sig, c, withRecv)
	if cc != nil && cc.IsInvoke() {
		// receiver name for interface methods
		pn2, _ := sigNames(sig, nil, false)
		pn = append([]string{"recv"}, pn2...)
		if len(c.Params) > 0 {
			pn = c.Params
		}
	}
	env := fc.envAt(fc.cur, nil)
	env.vars = map[string]Val{}
	if c.Pkg != "" {
		if p := g.ld.typesPkg(c.Pkg); p != nil {
			env.pkg = p
		}
	}
	for i, a := range args {
		if i < len(pn) {
			env.vars[pn[i]] = a
		}
	}
	if ci := fc.pendingClosure; ci != nil {
		for i, fv := range ci.fn.FreeVars {
			if i < len(ci.bindings) {
				v := Val{t: ci.bindings[i].t, ty: fv.Type()}
				if i < len(ci.cells) {
					v.cell = ci.cells[i]
				}
				env.vars[fv.Name()] = v
			}
		}
	}
	env.oldState = fc.cur
	short := lastPart(strings.ReplaceAll(shortPkg(name), ")", ""))
	trustPre := func(i int) bool { return false }
	{
		root := fc
		for root.parent != nil {
			root = root.parent
		}
		if root.c != nil {
			// trustpre CALLEE (all preconditions) | CALLEE.N (the N-th one)
			tp := root.c.TrustPre
			trustPre = func(i int) bool {
				if contains(tp, short) {
					g.trusted["assumed in "+root.c.Key+": the preconditions of "+short+" hold at its call sites (trustpre)"] = true
					return true
				}
				if contains(tp, fmt.Sprintf("%s.%d", short, i+1)) {
					g.trusted[fmt.Sprintf("assumed in %s: precondition %d of %s holds at its call sites (trustpre): %s", root.c.Key, i+1, short, c.Requires[i].Src)] = true
					return true
				}
				return false
			}
		}
	}
	for i, r := range c.Requires {
		t := env.boolExpr(r.Expr)
		if !trustPre(i) {
			fc.oblige("pre", fmt.Sprintf("%s.%d", short, i+1), posOf(ins), t, r.Src, r.Name)
		}
		fc.assume(t, "callee precondition")
	}
	old := fc.cur.clone()
	// frame
	if !c.ModSet {
		// the caller's private keys survive, except ghost variables the callee's own contract talks about
		skip := fc.privateSkipFn(ins, fc.calleeFn)
		if len(skip) > 0 {
			s2 := map[string]bool{}
			for k := range skip {
				mentioned := false
				if strings.HasPrefix(k, "G|") {
					gn := k[2:]
					for _, en := range c.Ensures {
						if strings.Contains(en.Src, gn) {
							mentioned = true
						}
					}
					for _, gs := range c.GhostSets {
						if gs.Var == gn {
							mentioned = true
						}
					}
				}
				if !mentioned {
					s2[k] = true
				}
			}
			skip = s2
		}
		g.havocAllExcept(fc.cur, name, skip)
		// a callee cannot reach the caller's private local variable cells
		fc.restorePrivate(old)
	} else {
		targets, all := env.resolveModifies(c.Modifies)
		if all {
			keep := map[string]string{}
			for _, t := range targets {
				keep[t.key] = g.get(fc.cur, t.key)
			}
			g.havocAll(fc.cur, name)
			for k, v := range keep {
				fc.cur.m[k] = v
			}
			fc.restorePrivate(old)
			targets = nil
		}
		for _, t := range targets {
			if t.whole && t.fresh {
				oldK := g.get(fc.cur, t.key)
				g.havocKey(fc.cur, t.key, name)
				fc.assume(fmt.Sprintf("(forall ((|o| Int)) (! (=> (<= |o| %s) (= (select %s |o|) (select %s |o|))) :pattern ((select %s |o|))))", g.get(old, "$alloc"), g.get(fc.cur, t.key), oldK, g.get(fc.cur, t.key)), "objects that existed before the call keep their contents")
			} else if t.whole {
				g.havocKey(fc.cur, t.key, name)
			} else {
				ki := g.keys[t.key]
				// element sort = range sort of the array
				es := strings.TrimSuffix(strings.TrimPrefix(ki.sort, "(Array Int "), ")")
				nv := g.fresh("hvobj."+t.key, es)
				g.set(fc.cur, t.key, fmt.Sprintf("(store %s %s %s)", g.get(fc.cur, t.key), t.obj, nv))
			}
		}
		if !c.Pure {
			oa := g.get(fc.cur, "$alloc")
			g.havocKey(fc.cur, "$alloc", name)
			fc.assume(fmt.Sprintf("(<= %s %s)", oa, g.get(fc.cur, "$alloc")), "alloc grows")
		}
		for _, t := range targets {
			if t.whole && g.keys[t.key].hasRef() {
				g.heapBound(t.key, g.get(fc.cur, t.key), g.get(fc.cur, "$alloc"))
			}
		}
	}
	// results
	var rs []Val
	for i := 0; i < sig.Results().Len(); i++ {
		rt := sig.Results().At(i).Type()
		var n string
		if c.Pure {
			fn := "|pure!" + sanitize(shortPkg(name)) + fmt.Sprintf("!%d|", i)
			var as, ss []string
			for _, a := range args {
				as = append(as, a.t)
				ss = append(ss, env.sortOfVal(a))
			}
			if len(args) == 0 {
				g.declareFun(fn, "() "+g.sortOf(rt))
				n = fn
			} else {
				g.declareFun(fn, "("+strings.Join(ss, " ")+") "+g.sortOf(rt))
				n = g.def(fc.prefix+"call."+short, g.sortOf(rt), "("+fn+" "+strings.Join(as, " ")+")")
			}
		} else if c.Fresh && i == 0 {
			g.markAlloc(rt)
			n = fc.newRef()
		} else {
			n = g.fresh(fc.prefix+"call."+short, g.sortOf(rt))
		}
		if rc := g.sorts.rangeConstraint(rt, n); rc != "" {
			fc.assume(rc, "range")
		}
		fc.boundRefs(rt, n)
		rs = append(rs, Val{t: n, ty: rt})
	}
	if c.FuncParams != nil {
		if fc.callContracts == nil {
			fc.callContracts = map[ssa.Instruction]*Contract{}
		}
		fc.callContracts[ins] = c
		root := fc
		for root.parent != nil {
			root = root.parent
		}
		for i, r := range rs {
			if fp, ok := c.FuncParams[fmt.Sprintf("result%d", i)]; ok {
				root.funcVals = append(root.funcVals, funcVal{term: r.t, c: fp, name: c.Key + ".result" + fmt.Sprint(i)})
			}
		}
	}
	// post
	penv := env.sub()
	penv.state = fc.cur
	penv.oldState = old
	bindResults(penv, rs, rn)
	penv.callSite = true
	for _, en := range c.Ensures {
		func() {
			defer func() {
				if r := recover(); r != nil {
					if sk, ok := r.(cxSkip); ok {
						g.note("postcondition of " + short + " not used at its call sites (" + sk.why + "): " + en.Name)
						return
					}
					panic(r)
				}
			}()
			fc.assume(penv.boolExpr(en.Expr), "callee postcondition "+short)
		}()
	}
	return rs
}

func bindResults(env *Env, rs []Val, rn []string) {
	for i, r := range rs {
		env.vars[fmt.Sprintf("result%d", i)] = r
		if i < len(rn) && rn[i] != "" && rn[i] != "_" {
			env.vars[rn[i]] = r
		}
	}
	if len(rs) == 1 {
		env.vars["result"] = rs[0]
	}
	if len(rs) > 0 {
		last := rs[len(rs)-1]
		if last.ty != nil && types.TypeString(last.ty, nil) == "error" {
			env.vars["err"] = last
		}
	}
}

// inline generates the callee body in place.
func (fc *FnCtx) inline(ins ssa.Instruction, callee *ssa.Function, c *Contract, ci *closureInfo, args []Val) []Val {
	g := fc.g
	g.n++
	sub := &FnCtx{g: g, fn: callee, c: c, prefix: fmt.Sprintf("%si%d.", fc.prefix, g.n), depth: fc.depth + 1,
		parent: fc, noPanic: fc.noPanic, inlined: true, closures: map[ssa.Value]*closureInfo{}}
	sub.entry = fc.entry
	sub.params = map[string]Val{}
	sub.genPrep(args, ci)
	// closure identities of arguments flow into the callee
	if cc := callCommonOf(ins); cc != nil {
		for i, a := range cc.Args {
			if x, ok := fc.closures[a]; ok && i < len(callee.Params) {
				sub.closures[callee.Params[i]] = x
			}
		}
	}
	sub.genBody(fc.cur, fc.curReach)
	if len(sub.rets) == 0 {
		fc.assume("false", "callee never returns")
		var rs []Val
		for i := 0; i < callee.Signature.Results().Len(); i++ {
			rt := callee.Signature.Results().At(i).Type()
			rs = append(rs, Val{t: g.sorts.zero(rt), ty: rt})
		}
		return rs
	}
	reach, st, rs := sub.mergeRets()
	fc.cur = st
	fc.curReach = reach
	return rs
}

func callCommonOf(ins ssa.Instruction) *ssa.CallCommon {
	switch x := ins.(type) {
	case *ssa.Call:
		return &x.Call
	case *ssa.Defer:
		return &x.Call
	case *ssa.Go:
		return &x.Call
	}
	return nil
}

// genPrep binds parameters and free variables.
func (sub *FnCtx) genPrep(args []Val, ci *closureInfo) {
	sub.preVals = map[ssa.Value]Val{}
	for i, p := range sub.fn.Params {
		if i < len(args) {
			sub.preVals[p] = Val{t: args[i].t, ty: p.Type()}
			sub.params[p.Name()] = sub.preVals[p]
		}
	}
	for i, fv := range sub.fn.FreeVars {
		if ci != nil && i < len(ci.bindings) {
			sub.preVals[fv] = Val{t: ci.bindings[i].t, ty: fv.Type()}
			pv := sub.preVals[fv]
			if i < len(ci.cells) {
				pv.cell = ci.cells[i]
			}
			sub.params[fv.Name()] = pv
		}
	}
}

func (fc *FnCtx) mergeRets() (string, *State, []Val) {
	g := fc.g
	var conds []string
	var states []*State
	for _, r := range fc.rets {
		conds = append(conds, r.reach)
		states = append(states, r.state)
	}
	reach := g.def(fc.prefix+"exit", "Bool", or(conds))
	st := g.mergeStates(conds, states)
	var rs []Val
	nres := fc.fn.Signature.Results().Len()
	for i := 0; i < nres; i++ {
		var vs []string
		for _, r := range fc.rets {
			vs = append(vs, r.results[i].t)
		}
		rt := fc.fn.Signature.Results().At(i).Type()
		rs = append(rs, Val{t: mergeVals(g, conds, vs, g.sortOf(rt)), ty: rt})
	}
	return reach, st, rs
}

// runDefers expands deferred calls in LIFO order.
func (fc *FnCtx) runDefers(x *ssa.RunDefers) {
	g := fc.g
	for i := len(fc.defers) - 1; i >= 0; i-- {
		d := fc.defers[i]
		// conditional execution: only if the defer statement was reached on this path
		dom := d.instr.Block().Dominates(x.Block()) || d.instr.Block() == x.Block()
		before := fc.cur.clone()
		savedReach := fc.curReach
		if !dom {
			fc.curReach = g.def(fc.prefix+"defer", "Bool", fmt.Sprintf("(and %s %s)", savedReach, d.cond))
		}
		fc.callDeferred(d)
		if !dom {
			after := fc.cur
			ran := fc.curReach
			skip := g.def(fc.prefix+"nodefer", "Bool", fmt.Sprintf("(and %s (not %s))", savedReach, d.cond))
			fc.cur = g.mergeStates([]string{ran, skip}, []*State{after, before})
			fc.curReach = g.def(fc.prefix+"afterdefer", "Bool", fmt.Sprintf("(or %s %s)", ran, skip))
		}
	}
}

func (fc *FnCtx) callDeferred(d deferRec) {
	// re-dispatch through call() using the recorded argument values
	cc := &d.instr.Call
	saved := map[ssa.Value]Val{}
	for i, a := range cc.Args {
		if v, ok := fc.vals[a]; ok {
			saved[a] = v
		}
		if _, isConst := a.(*ssa.Const); !isConst {
			fc.vals[a] = d.args[i]
		}
	}
	fc.call(d.instr, cc, nil)
	for a, v := range saved {
		fc.vals[a] = v
	}
}

// ---------------------------------------------------------------------------
// builtins

func (fc *FnCtx) builtin(ins ssa.Instruction, b *ssa.Builtin, cc *ssa.CallCommon, res ssa.Value) {
	g := fc.g
	switch b.Name() {
	case "len":
		v := fc.term(cc.Args[0])
		switch u := cc.Args[0].Type().Underlying().(type) {
		case *types.Slice:
			fc.defVal(res, fmt.Sprintf("(slen %s)", v.t))
		case *types.Basic:
			fc.defVal(res, fmt.Sprintf("(str.len %s)", v.t))
		case *types.Map:
			kd, _ := g.mapKeys(u)
			fn := g.cardFn(g.sortOf(u.Key()))
			fc.defVal(res, fmt.Sprintf("(ite (= %s 0) 0 (%s (select %s %s)))", v.t, fn, g.get(fc.cur, kd), v.t))
			fc.assume(fmt.Sprintf("(<= 0 %s)", fc.vals[res].t), "len >= 0")
		case *types.Array:
			fc.defVal(res, fmt.Sprint(u.Len()))
		case *types.Pointer:
			fc.defVal(res, fmt.Sprint(u.Elem().Underlying().(*types.Array).Len()))
		case *types.Chan:
			fc.freshVal(res, "len(chan)")
			fc.assume(fmt.Sprintf("(<= 0 %s)", fc.vals[res].t), "len >= 0")
		default:
			fc.freshVal(res, "len")
		}
	case "cap":
		v := fc.term(cc.Args[0])
		if _, ok := cc.Args[0].Type().Underlying().(*types.Slice); ok {
			fc.defVal(res, fmt.Sprintf("(scap %s)", v.t))
		} else {
			fc.freshVal(res, "cap")
		}
	case "append":
		fc.appendBuiltin(ins, cc, res)
	case "copy":
		// copy(dst, src) for slices of the same element type: the first n = min(len) elements of dst become those of
		// src (read before the copy, as memmove does), everything else keeps its content; returns n
		dst := fc.term(cc.Args[0])
		src := fc.term(cc.Args[1])
		st, ok := cc.Args[0].Type().Underlying().(*types.Slice)
		st2, ok2 := cc.Args[1].Type().Underlying().(*types.Slice)
		if ok && ok2 && types.Identical(st.Elem(), st2.Elem()) {
			k := g.arrKey(st.Elem())
			h := g.get(fc.cur, k)
			n := g.def(fc.prefix+"copy.n", "Int", fmt.Sprintf("(ite (<= (slen %s) (slen %s)) (slen %s) (slen %s))", dst.t, src.t, dst.t, src.t))
			nv := g.fresh(fc.prefix+"copydst", "(Array Int "+g.sortOf(st.Elem())+")")
			oldD := fmt.Sprintf("(select %s (sarr %s))", h, dst.t)
			oldS := fmt.Sprintf("(select %s (sarr %s))", h, src.t)
			fc.assume(fmt.Sprintf("(forall ((|i| Int)) (! (=> (and (<= 0 |i|) (< |i| %s)) (= (select %s (|ix| (soff %s) |i|)) (select %s (|ix| (soff %s) |i|)))) :pattern ((select %s (|ix| (soff %s) |i|)))))", n, nv, dst.t, oldS, src.t, nv, dst.t), "copy: copied prefix")
			fc.assume(fmt.Sprintf("(forall ((|p| Int)) (! (=> (or (< |p| (soff %s)) (>= |p| (+ (soff %s) %s))) (= (select %s |p|) (select %s |p|))) :pattern ((select %s |p|))))", dst.t, dst.t, n, nv, oldD, nv), "copy: rest unchanged")
			g.set(fc.cur, k, fmt.Sprintf("(ite (= %s 0) %s (store %s (sarr %s) %s))", n, h, h, dst.t, nv))
			if res != nil {
				fc.defVal(res, n)
			}
			return
		}
		if ok {
			k := g.arrKey(st.Elem())
			nv := g.fresh("copydst", "(Array Int "+g.sortOf(st.Elem())+")")
			g.set(fc.cur, k, fmt.Sprintf("(store %s (sarr %s) %s)", g.get(fc.cur, k), dst.t, nv))
			g.note("copy(): destination contents abstracted")
		}
		if res != nil {
			fc.freshVal(res, "copy")
		}
	case "delete":
		m := fc.term(cc.Args[0])
		k := fc.term(cc.Args[1])
		mt := cc.Args[0].Type().Underlying().(*types.Map)
		kd, _ := g.mapKeys(mt)
		d := g.get(fc.cur, kd)
		// delete on nil map is a no-op
		g.set(fc.cur, kd, fmt.Sprintf("(ite (= %s 0) %s (store %s %s (store (select %s %s) %s false)))", m.t, d, d, m.t, d, m.t, k.t))
	case "close":
		fc.chanClose(cc.Args[0], ins)
	case "print", "println":
	case "recover":
		if res != nil {
			fc.setVal(res, "niliface")
		}
	case "min", "max":
		a, b2 := fc.term(cc.Args[0]), fc.term(cc.Args[1])
		op := "<="
		if b.Name() == "max" {
			op = ">="
		}
		fc.defVal(res, fmt.Sprintf("(ite (%s %s %s) %s %s)", op, a.t, b2.t, a.t, b2.t))
	case "ssa:wrapnilchk":
		fc.setVal(res, fc.term(cc.Args[0]).t)
	default:
		fc.unsupported(ins, "builtin "+b.Name())
	}
}

func (fc *FnCtx) chanClose(ch ssa.Value, ins ssa.Instruction) {
	fc.g.note("close(chan): not modelled as data")
}

func (fc *FnCtx) appendBuiltin(ins ssa.Instruction, cc *ssa.CallCommon, res ssa.Value) {
	g := fc.g
	s := fc.term(cc.Args[0])
	t := fc.term(cc.Args[1])
	st := cc.Args[0].Type().Underlying().(*types.Slice)
	et := st.Elem()
	es := g.sortOf(et)
	k := g.arrKey(et)
	if _, isStr := cc.Args[1].Type().Underlying().(*types.Basic); isStr {
		// append([]byte, string...)
		fc.unsupported(ins, "append(bytes, string...)")
		return
	}
	g.markAlloc(cc.Args[0].Type())
	h := g.get(fc.cur, k)
	total := g.def(fc.prefix+"app.len", "Int", fmt.Sprintf("(+ (slen %s) (slen %s))", s.t, t.t))
	inplace := g.def(fc.prefix+"app.inplace", "Bool", fmt.Sprintf("(<= %s (scap %s))", total, s.t))
	nr := fc.newRef()
	arrRef := g.def(fc.prefix+"app.arr", "Int", fmt.Sprintf("(ite %s (sarr %s) %s)", inplace, s.t, nr))
	ncap := g.fresh(fc.prefix+"app.cap", "Int")
	fc.assume(fmt.Sprintf("(>= %s %s)", ncap, total), "append capacity")
	capT := g.def(fc.prefix+"app.capv", "Int", fmt.Sprintf("(ite %s (scap %s) %s)", inplace, s.t, ncap))
	srcArr := fmt.Sprintf("(select %s (sarr %s))", h, s.t)
	var newArr string
	// constant-length right operand (varargs array): exact stores
	if n, ok := constSliceLen(cc.Args[1]); ok {
		newArr = srcArr
		for i := 0; i < n; i++ {
			elt := fmt.Sprintf("(select (select %s (sarr %s)) (|ix| (soff %s) %d))", h, t.t, t.t, i)
			newArr = fmt.Sprintf("(store %s (|ix| (soff %s) (+ (slen %s) %d)) %s)", newArr, s.t, s.t, i, elt)
		}
	} else {
		na := g.fresh(fc.prefix+"app.newarr", "(Array Int "+es+")")
		// forall i: i < off+len(s) => na[i] = src[i] ; len(s) <= j < total => na[off+j] = t[j-len(s)]
		fc.assume(fmt.Sprintf("(forall ((|i| Int)) (! (=> (and (<= 0 |i|) (< |i| (+ (soff %s) (slen %s)))) (= (select %s |i|) (select %s |i|))) :pattern ((select %s |i|))))", s.t, s.t, na, srcArr, na), "append keeps prefix")
		fc.assume(fmt.Sprintf("(forall ((|j| Int)) (! (=> (and (<= 0 |j|) (< |j| (slen %s))) (= (select %s (|ix| (soff %s) (+ (slen %s) |j|))) (select (select %s (sarr %s)) (|ix| (soff %s) |j|)))) :pattern ((select (select %s (sarr %s)) (|ix| (soff %s) |j|)))))", t.t, na, s.t, s.t, h, t.t, t.t, h, t.t, t.t), "append copies suffix")
		newArr = na
	}
	g.set(fc.cur, k, fmt.Sprintf("(store %s %s %s)", h, arrRef, newArr))
	fc.defVal(res, fmt.Sprintf("(mkslice %s (soff %s) %s %s)", arrRef, s.t, total, capT))
}

// constSliceLen recognises `slice t[:]` of `new [N]T (varargs)`.
func constSliceLen(v ssa.Value) (int, bool) {
	sl, ok := v.(*ssa.Slice)
	if !ok || sl.Low != nil || sl.High != nil {
		if c, ok := v.(*ssa.Const); ok && c.Value == nil {
			return 0, true // nil slice
		}
		return 0, false
	}
	pt, ok := sl.X.Type().Underlying().(*types.Pointer)
	if !ok {
		return 0, false
	}
	at, ok := pt.Elem().Underlying().(*types.Array)
	if !ok {
		return 0, false
	}
	return int(at.Len()), true
}

// hooks filled in by later files
func (fc *FnCtx) special(ins ssa.Instruction, callee *ssa.Function, cc *ssa.CallCommon, args []Val, setResult func([]Val)) bool {
	return fc.specialCall(ins, callee, cc, args, setResult)
}

// funcResultCall: a call through a function value that was returned by a contracted call whose
// contract describes it (`funcparam resultN ...`).
func (fc *FnCtx) funcResultCall(ins ssa.Instruction, cc *ssa.CallCommon, args []Val, setResult func([]Val)) bool {
	ex, ok := cc.Value.(*ssa.Extract)
	if !ok {
		return fc.funcValCall(ins, cc, args, setResult)
	}
	src, ok := ex.Tuple.(ssa.Instruction)
	if !ok {
		return false
	}
	for c := fc; c != nil; c = c.parent {
		if k, ok := c.callContracts[src]; ok {
			if fp, ok := k.FuncParams[fmt.Sprintf("result%d", ex.Index)]; ok {
				setResult(fc.applyContract(ins, fp, k.Key+".result"+fmt.Sprint(ex.Index), cc.Signature(), args, false, nil))
				return true
			}
		}
	}
	return false
}

type funcVal struct {
	term string
	c    *Contract
	name string
}

// funcValCall: the called function value may be one of the function values returned by contracted
// calls earlier (possibly passed through local variables): if it is that value its contract applies,
// otherwise the call is unknown (havoc).  Only the single-candidate case is handled.
func (fc *FnCtx) funcValCall(ins ssa.Instruction, cc *ssa.CallCommon, args []Val, setResult func([]Val)) bool {
	g := fc.g
	root := fc
	for root.parent != nil {
		root = root.parent
	}
	if len(root.funcVals) != 1 {
		return false
	}
	fvl := root.funcVals[0]
	v := fc.term(cc.Value)
	sig := cc.Signature()
	cond := g.def(fc.prefix+"isfn", "Bool", fmt.Sprintf("(= %s %s)", v.t, fvl.term))
	before := fc.cur.clone()
	reach0 := fc.curReach
	// branch A: it is the contracted function value
	fc.curReach = g.def(fc.prefix+"fnA", "Bool", fmt.Sprintf("(and %s %s)", reach0, cond))
	rsA := fc.applyContract(ins, fvl.c, fvl.name, sig, args, false, nil)
	stA, reachA := fc.cur, fc.curReach
	// branch B: some other function
	fc.cur = before
	fc.curReach = g.def(fc.prefix+"fnB", "Bool", fmt.Sprintf("(and %s (not %s))", reach0, cond))
	rsB := fc.unknownCall(ins, "dynamic call "+cc.Value.Name(), sig, false)
	stB, reachB := fc.cur, fc.curReach
	fc.cur = g.mergeStates([]string{reachA, reachB}, []*State{stA, stB})
	fc.curReach = g.def(fc.prefix+"fnAB", "Bool", fmt.Sprintf("(or %s %s)", reachA, reachB))
	var rs []Val
	for i := range rsA {
		rs = append(rs, Val{t: mergeVals(g, []string{reachA, reachB}, []string{rsA[i].t, rsB[i].t}, g.sortOf(rsA[i].ty)), ty: rsA[i].ty})
	}
	setResult(rs)
	return true
}

// funcFieldCall: a call through a function value that was just loaded from a struct field T.f for which a contract
// `trusted func field:T.f` is declared (in the contract file of T's package).  The contract is an assumption about
// every function value stored in that field; it typically defines ghost counters ("the failure callback was invoked").
func (fc *FnCtx) funcFieldCall(ins ssa.Instruction, cc *ssa.CallCommon, args []Val, setResult func([]Val)) bool {
	ld, ok := cc.Value.(*ssa.UnOp)
	if !ok || ld.Op != token.MUL {
		return false
	}
	fa, ok := ld.X.(*ssa.FieldAddr)
	if !ok {
		return false
	}
	pt, ok := fa.X.Type().Underlying().(*types.Pointer)
	if !ok {
		return false
	}
	nt, ok := unaliasDeep(pt.Elem()).(*types.Named)
	if !ok || nt.Obj().Pkg() == nil {
		return false
	}
	st, ok := nt.Underlying().(*types.Struct)
	if !ok {
		return false
	}
	key := nt.Obj().Pkg().Path() + "::field:" + nt.Obj().Name() + "." + st.Field(fa.Field).Name()
	c, ok := fc.g.cs.Funcs[key]
	if !ok {
		return false
	}
	fc.g.trusted["assumed: function values stored in "+nt.Obj().Name()+"."+st.Field(fa.Field).Name()+" satisfy the contract declared for that field"] = true
	setResult(fc.applyContract(ins, c, "field:"+nt.Obj().Name()+"."+st.Field(fa.Field).Name(), cc.Signature(), args, false, nil))
	return true
}
