package main

// Contract expression language: lexer + Pratt parser producing a small AST.
// Grammar (see DESIGN.md 1.2): Go-like expressions plus ==>, <==>, forall/exists,
// old(e), `k in m`, seq literal [a, b], seq concat ++.

import (
	"fmt"
	"strings"
	"unicode"
)

type CNode struct {
	Kind string // ident int str bool nil bin un call index slice field old quant seqlit ite
	Op   string
	Name string
	Args []*CNode
	// quant
	Vars  []string
	Types []string
	Trigs [][]*CNode // explicit triggers: alternatives of multi-patterns
	Pos   int
}

func (n *CNode) String() string {
	switch n.Kind {
	case "ident", "int", "bool", "nil":
		return n.Name
	case "str":
		return fmt.Sprintf("%q", n.Name)
	case "bin":
		return "(" + n.Args[0].String() + " " + n.Op + " " + n.Args[1].String() + ")"
	case "un":
		return n.Op + n.Args[0].String()
	case "call":
		s := []string{}
		for _, a := range n.Args {
			s = append(s, a.String())
		}
		return n.Name + "(" + strings.Join(s, ", ") + ")"
	case "index":
		return n.Args[0].String() + "[" + n.Args[1].String() + "]"
	case "slice":
		return n.Args[0].String() + "[" + n.Args[1].String() + ":" + n.Args[2].String() + "]"
	case "field":
		return n.Args[0].String() + "." + n.Name
	case "old":
		return "old(" + n.Args[0].String() + ")"
	case "quant":
		vs := []string{}
		for i := range n.Vars {
			vs = append(vs, n.Vars[i]+" "+n.Types[i])
		}
		return "(" + n.Op + " " + strings.Join(vs, ", ") + " :: " + n.Args[0].String() + ")"
	case "seqlit":
		s := []string{}
		for _, a := range n.Args {
			s = append(s, a.String())
		}
		return "[" + strings.Join(s, ", ") + "]"
	}
	return "?" + n.Kind
}

type ctok struct {
	kind string // id int str op eof
	s    string
	pos  int
}

func clex(src string) ([]ctok, error) {
	var toks []ctok
	i := 0
	rs := []rune(src)
	for i < len(rs) {
		c := rs[i]
		if unicode.IsSpace(c) {
			i++
			continue
		}
		if unicode.IsLetter(c) || c == '_' {
			j := i
			for j < len(rs) && (unicode.IsLetter(rs[j]) || unicode.IsDigit(rs[j]) || rs[j] == '_' || rs[j] == '$') {
				j++
			}
			toks = append(toks, ctok{"id", string(rs[i:j]), i})
			i = j
			continue
		}
		if unicode.IsDigit(c) {
			j := i
			for j < len(rs) && (unicode.IsDigit(rs[j]) || rs[j] == 'x' || (rs[j] >= 'a' && rs[j] <= 'f') || (rs[j] >= 'A' && rs[j] <= 'F')) {
				j++
			}
			toks = append(toks, ctok{"int", string(rs[i:j]), i})
			i = j
			continue
		}
		if c == '"' {
			j := i + 1
			var sb strings.Builder
			for j < len(rs) && rs[j] != '"' {
				if rs[j] == '\\' && j+1 < len(rs) {
					j++
					switch rs[j] {
					case 'n':
						sb.WriteRune('\n')
					case 't':
						sb.WriteRune('\t')
					default:
						sb.WriteRune(rs[j])
					}
				} else {
					sb.WriteRune(rs[j])
				}
				j++
			}
			if j >= len(rs) {
				return nil, fmt.Errorf("unterminated string at %d", i)
			}
			toks = append(toks, ctok{"str", sb.String(), i})
			i = j + 1
			continue
		}
		three := ""
		if i+2 < len(rs) {
			three = string(rs[i : i+3])
		}
		two := ""
		if i+1 < len(rs) {
			two = string(rs[i : i+2])
		}
		if three == "==>" {
			toks = append(toks, ctok{"op", three, i})
			i += 3
			continue
		}
		if i+3 < len(rs) && string(rs[i:i+4]) == "<==>" {
			toks = append(toks, ctok{"op", "<==>", i})
			i += 4
			continue
		}
		switch two {
		case "&&", "||", "==", "!=", "<=", ">=", "::", "++":
			toks = append(toks, ctok{"op", two, i})
			i += 2
			continue
		}
		switch c {
		case '(', ')', '[', ']', '.', ',', '!', '<', '>', '+', '-', '*', '/', '%', ':', '{', '}':
			toks = append(toks, ctok{"op", string(c), i})
			i++
			continue
		}
		return nil, fmt.Errorf("bad character %q at %d in %q", c, i, src)
	}
	toks = append(toks, ctok{"eof", "", len(rs)})
	return toks, nil
}

type cparser struct {
	toks []ctok
	p    int
	src  string
}

func parseCExpr(src string) (n *CNode, err error) {
	toks, err := clex(src)
	if err != nil {
		return nil, err
	}
	ps := &cparser{toks: toks, src: src}
	defer func() {
		if r := recover(); r != nil {
			if s, ok := r.(string); ok && strings.HasPrefix(s, "parse:") {
				err = fmt.Errorf("%s in %q", s, src)
				return
			}
			panic(r)
		}
	}()
	n = ps.expr()
	if ps.peek().kind != "eof" {
		ps.fail("trailing input " + ps.peek().s)
	}
	return n, nil
}

func (ps *cparser) fail(m string) { panic("parse: " + m + fmt.Sprintf(" at %d", ps.peek().pos)) }
func (ps *cparser) peek() ctok    { return ps.toks[ps.p] }
func (ps *cparser) next() ctok    { t := ps.toks[ps.p]; ps.p++; return t }
func (ps *cparser) isOp(s string) bool {
	t := ps.peek()
	return t.kind == "op" && t.s == s
}
func (ps *cparser) expect(s string) {
	if !ps.isOp(s) {
		ps.fail("expected " + s + " got " + ps.peek().s)
	}
	ps.p++
}

func (ps *cparser) expr() *CNode {
	t := ps.peek()
	if t.kind == "id" && (t.s == "forall" || t.s == "exists") {
		ps.next()
		n := &CNode{Kind: "quant", Op: t.s, Pos: t.pos}
		for {
			v := ps.next()
			if v.kind != "id" {
				ps.fail("quantified variable expected")
			}
			ty := ps.typeName()
			n.Vars = append(n.Vars, v.s)
			n.Types = append(n.Types, ty)
			if ps.isOp(",") {
				ps.next()
				continue
			}
			break
		}
		ps.expect("::")
		// optional triggers: { t1, t2 } { t3 } ... (each group one multi-pattern)
		for ps.isOp("{") {
			ps.next()
			var grp []*CNode
			for {
				grp = append(grp, ps.iff())
				if ps.isOp(",") {
					ps.next()
					continue
				}
				break
			}
			ps.expect("}")
			n.Trigs = append(n.Trigs, grp)
		}
		n.Args = []*CNode{ps.expr()}
		return n
	}
	return ps.iff()
}

func (ps *cparser) typeName() string {
	// ident | pkg.ident | *T | []T
	s := ""
	for ps.isOp("*") || ps.isOp("[") {
		if ps.isOp("*") {
			ps.next()
			s += "*"
		} else {
			ps.next()
			ps.expect("]")
			s += "[]"
		}
	}
	t := ps.next()
	if t.kind != "id" {
		ps.fail("type name expected")
	}
	s += t.s
	if ps.isOp(".") {
		ps.next()
		t2 := ps.next()
		s += "." + t2.s
	}
	return s
}

func (ps *cparser) iff() *CNode {
	l := ps.impl()
	for ps.isOp("<==>") {
		ps.next()
		r := ps.impl()
		l = &CNode{Kind: "bin", Op: "<==>", Args: []*CNode{l, r}}
	}
	return l
}

func (ps *cparser) impl() *CNode {
	l := ps.or()
	if ps.isOp("==>") {
		ps.next()
		// right assoc; allow quantifier on the right
		var r *CNode
		t := ps.peek()
		if t.kind == "id" && (t.s == "forall" || t.s == "exists") {
			r = ps.expr()
		} else {
			r = ps.impl()
		}
		return &CNode{Kind: "bin", Op: "==>", Args: []*CNode{l, r}}
	}
	return l
}

func (ps *cparser) or() *CNode {
	l := ps.and()
	for ps.isOp("||") {
		ps.next()
		r := ps.and()
		l = &CNode{Kind: "bin", Op: "||", Args: []*CNode{l, r}}
	}
	return l
}

func (ps *cparser) and() *CNode {
	l := ps.cmp()
	for ps.isOp("&&") {
		ps.next()
		r := ps.cmp()
		l = &CNode{Kind: "bin", Op: "&&", Args: []*CNode{l, r}}
	}
	return l
}

func (ps *cparser) cmp() *CNode {
	l := ps.add()
	t := ps.peek()
	if t.kind == "op" {
		switch t.s {
		case "==", "!=", "<", "<=", ">", ">=":
			ps.next()
			r := ps.add()
			return &CNode{Kind: "bin", Op: t.s, Args: []*CNode{l, r}}
		}
	}
	if t.kind == "id" && t.s == "in" {
		ps.next()
		r := ps.add()
		return &CNode{Kind: "bin", Op: "in", Args: []*CNode{l, r}}
	}
	return l
}

func (ps *cparser) add() *CNode {
	l := ps.mul()
	for ps.isOp("+") || ps.isOp("-") || ps.isOp("++") {
		t := ps.next()
		r := ps.mul()
		l = &CNode{Kind: "bin", Op: t.s, Args: []*CNode{l, r}}
	}
	return l
}

func (ps *cparser) mul() *CNode {
	l := ps.unary()
	for ps.isOp("*") || ps.isOp("/") || ps.isOp("%") {
		t := ps.next()
		r := ps.unary()
		l = &CNode{Kind: "bin", Op: t.s, Args: []*CNode{l, r}}
	}
	return l
}

func (ps *cparser) unary() *CNode {
	if ps.isOp("!") || ps.isOp("-") {
		t := ps.next()
		return &CNode{Kind: "un", Op: t.s, Args: []*CNode{ps.unary()}}
	}
	return ps.postfix()
}

func (ps *cparser) postfix() *CNode {
	n := ps.primary()
	for {
		switch {
		case ps.isOp("."):
			ps.next()
			t := ps.next()
			if t.kind != "id" {
				ps.fail("field name expected")
			}
			n = &CNode{Kind: "field", Name: t.s, Args: []*CNode{n}}
		case ps.isOp("["):
			ps.next()
			if ps.isOp(":") {
				ps.next()
				hi := ps.expr()
				ps.expect("]")
				n = &CNode{Kind: "slice", Args: []*CNode{n, {Kind: "int", Name: "0"}, hi}}
				continue
			}
			i := ps.expr()
			if ps.isOp(":") {
				ps.next()
				var hi *CNode
				if ps.isOp("]") {
					hi = &CNode{Kind: "call", Name: "len", Args: []*CNode{n}}
				} else {
					hi = ps.expr()
				}
				ps.expect("]")
				n = &CNode{Kind: "slice", Args: []*CNode{n, i, hi}}
			} else {
				ps.expect("]")
				n = &CNode{Kind: "index", Args: []*CNode{n, i}}
			}
		case ps.isOp("(") && (n.Kind == "ident" || n.Kind == "field"):
			ps.next()
			var args []*CNode
			for !ps.isOp(")") {
				args = append(args, ps.expr())
				if ps.isOp(",") {
					ps.next()
				}
			}
			ps.expect(")")
			name := n.Name
			if n.Kind == "field" {
				// pkg.Func(...) or recv.method(...) : keep as call with qualified name
				name = n.Args[0].String() + "." + n.Name
			}
			if name == "old" && len(args) == 1 {
				n = &CNode{Kind: "old", Args: args}
			} else {
				n = &CNode{Kind: "call", Name: name, Args: args}
			}
		default:
			return n
		}
	}
}

func (ps *cparser) primary() *CNode {
	t := ps.next()
	switch t.kind {
	case "id":
		switch t.s {
		case "true", "false":
			return &CNode{Kind: "bool", Name: t.s}
		case "nil":
			return &CNode{Kind: "nil", Name: "nil"}
		}
		return &CNode{Kind: "ident", Name: t.s, Pos: t.pos}
	case "int":
		return &CNode{Kind: "int", Name: t.s}
	case "str":
		return &CNode{Kind: "str", Name: t.s}
	case "op":
		if t.s == "(" {
			e := ps.expr()
			ps.expect(")")
			return e
		}
		if t.s == "[" {
			var args []*CNode
			for !ps.isOp("]") {
				args = append(args, ps.expr())
				if ps.isOp(",") {
					ps.next()
				}
			}
			ps.expect("]")
			return &CNode{Kind: "seqlit", Args: args}
		}
	}
	ps.fail("unexpected token " + t.s)
	return nil
}
