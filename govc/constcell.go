package main

// Write-once local variable cells.
//
// go/ssa keeps every variable that a closure captures in a heap cell (captured by reference), also when the
// variable is assigned exactly once (a parameter such as the receiver `r`, or `x := ...` at the top of the
// function).  Such a cell cannot change after its initialisation: the only code that can reach it is the
// function itself and the closures that capture it, and none of them stores to it.  Loads from it are
// therefore translated to the stored value, which survives every havoc (unknown calls, loop cuts).

import (
	"sync"

	"golang.org/x/tools/go/ssa"
)

var constAllocCache sync.Map // *ssa.Alloc -> bool

func isConstAlloc(a *ssa.Alloc) bool {
	if v, ok := constAllocCache.Load(a); ok {
		return v.(bool)
	}
	r := computeConstAlloc(a)
	constAllocCache.Store(a, r)
	return r
}

func computeConstAlloc(a *ssa.Alloc) bool {
	refs := a.Referrers()
	if refs == nil || a.Block() == nil || onCycle(a.Block()) {
		return false
	}
	var store *ssa.Store
	for _, r := range *refs {
		switch x := r.(type) {
		case *ssa.Store:
			if x.Addr != ssa.Value(a) || x.Val == ssa.Value(a) || store != nil {
				return false
			}
			store = x
		case *ssa.UnOp:
			if x.X != ssa.Value(a) {
				return false
			}
		case *ssa.DebugRef:
		case *ssa.MakeClosure:
			fn, ok := x.Fn.(*ssa.Function)
			if !ok {
				return false
			}
			for i, b := range x.Bindings {
				if b == ssa.Value(a) {
					if i >= len(fn.FreeVars) || !freeVarReadOnly(fn.FreeVars[i], 0) {
						return false
					}
				}
			}
		default:
			return false
		}
	}
	if store == nil || onCycle(store.Block()) {
		return false
	}
	// the initialising store runs at most once (its block is on no cycle) and precedes every other use: it comes
	// first in its own block and its block dominates the block of every other use
	sb := store.Block()
	pos := map[ssa.Instruction]int{}
	for i, ins := range sb.Instrs {
		pos[ins] = i
	}
	for _, r := range *refs {
		if r == ssa.Instruction(store) {
			continue
		}
		if _, dbg := r.(*ssa.DebugRef); dbg {
			continue
		}
		if r.Block() == sb {
			if pos[r] < pos[store] {
				return false
			}
			continue
		}
		if !sb.Dominates(r.Block()) {
			return false
		}
	}
	return true
}

// onCycle: b can be executed more than once in one activation of its function.
func onCycle(b *ssa.BasicBlock) bool {
	seen := map[*ssa.BasicBlock]bool{}
	stack := append([]*ssa.BasicBlock{}, b.Succs...)
	for len(stack) > 0 {
		x := stack[len(stack)-1]
		stack = stack[:len(stack)-1]
		if x == b {
			return true
		}
		if seen[x] {
			continue
		}
		seen[x] = true
		stack = append(stack, x.Succs...)
	}
	return false
}

func freeVarReadOnly(fv *ssa.FreeVar, depth int) bool {
	if depth > 8 {
		return false
	}
	refs := fv.Referrers()
	if refs == nil {
		return true
	}
	for _, r := range *refs {
		switch x := r.(type) {
		case *ssa.UnOp:
			if x.X != ssa.Value(fv) {
				return false
			}
		case *ssa.DebugRef:
		case *ssa.MakeClosure:
			fn, ok := x.Fn.(*ssa.Function)
			if !ok {
				return false
			}
			for i, b := range x.Bindings {
				if b == ssa.Value(fv) {
					if i >= len(fn.FreeVars) || !freeVarReadOnly(fn.FreeVars[i], depth+1) {
						return false
					}
				}
			}
		default:
			return false
		}
	}
	return true
}
