package main

import (
	"fmt"
	"go/token"
	"go/types"
	"math/big"
	"sort"
	"strings"

	"golang.org/x/tools/go/ssa"
)

type bigInt = big.Int

var bigOne = big.NewInt(1)

// Unit is the generated VC of one function under contract.
type Unit struct {
	Func      string
	Contract  *Contract
	Prelude   string
	Assumps   []Assump
	Obligs    []*Oblig
	Notes     []string
	Trusted   []string
	Err       string
	ParamInfo []ParamInfo
	g         *Gen
	env       *Env
	fn        *ssa.Function
}

type ParamInfo struct {
	Name string
	Term string
	Type string
	Sort string
}

func newGen(ld *Loader, cs *ContractSet, fn *ssa.Function, c *Contract) *Gen {
	g := &Gen{ld: ld, cs: cs, sorts: newSorts(), keys: map[string]KeyInfo{}, loopMods: map[string]map[string]bool{}, loopAll: map[string]bool{},
		declared: map[string]bool{}, rootFn: fn, rootC: c, notes: map[string]bool{}, trusted: map[string]bool{}, globals: map[string]string{},
		funcIDs: map[string]int{}, boxAx: map[string]bool{}, ufs: map[string]ufDecl{}, ordinals: map[string]int{}, obNames: map[string]int{}, allocKinds: map[string]bool{}}
	g.regKey("$alloc", "Int", "alloc")
	g.curBlk = -1
	return g
}

// verifyFunction generates the VC for fn against contract c (two passes: key discovery, then exact).
func verifyFunction(ld *Loader, cs *ContractSet, fn *ssa.Function, c *Contract) (u *Unit) {
	u = &Unit{Func: relFuncName(fn), Contract: c}
	defer func() {
		if r := recover(); r != nil {
			if ce, ok := r.(cxError); ok {
				u.Err = "contract error: " + ce.msg
				return
			}
			panic(r)
		}
	}()
	var g *Gen
	var prevKeys []string
	var prevInfo map[string]KeyInfo
	var loopMods map[string]map[string]bool
	var loopAll map[string]bool
	var loopAllBut map[string]map[string]bool
	var msgSeed []types.Type
	allocKinds := map[string]bool{}
	for pass := 1; pass <= 4; pass++ {
		g = newGen(ld, cs, fn, c)
		g.pass = pass
		if pass > 1 {
			g.pass = 2
			for _, k := range prevKeys {
				g.regKey(k, prevInfo[k].sort, prevInfo[k].kind)
				ki := g.keys[k]
				ki.ref = prevInfo[k].ref
				ki.valT = prevInfo[k].valT
				ki.sub = prevInfo[k].sub
				g.keys[k] = ki
			}
			g.loopMods = loopMods
			g.loopAll = loopAll
			g.loopAllBut = loopAllBut
			g.msgUniSeed = msgSeed
			for k := range allocKinds {
				g.allocKinds[k] = true
			}
		}
		nkeys := len(g.keyOrder)
		g.registerAxioms()
		runRoot(g, fn, c, u)
		prevKeys, prevInfo = g.keyOrder, g.keys
		nseed := len(msgSeed)
		msgSeed = nil
		{
			var ids []int
			for id := range g.sorts.typeOf {
				ids = append(ids, id)
			}
			sort.Ints(ids)
			for _, id := range ids {
				if _, ok := isMsgStructPtr(g.sorts.typeOf[id]); ok {
					msgSeed = append(msgSeed, g.sorts.typeOf[id])
				}
			}
		}
		seedGrew := len(msgSeed) != nseed
		grew := false
		for k := range g.allocKinds {
			if !allocKinds[k] {
				allocKinds[k] = true
				grew = true
			}
		}
		if pass > 1 && grew {
			continue
		}
		if pass > 1 && len(g.keyOrder) == nkeys && !seedGrew {
			break
		}
		// loop modification sets are recomputed from this pass
		loopMods, loopAll = map[string]map[string]bool{}, map[string]bool{}
		loopAllBut = map[string]map[string]bool{}
		for k, v := range g.loopAllBut {
			loopAllBut[k] = v
		}
		for k, v := range g.loopMods {
			loopMods[k] = v
		}
		for k, v := range g.loopAll {
			loopAll[k] = v
		}
	}
	u.g = g
	u.fn = fn
	u.render()
	u.Assumps = g.assumps
	u.Obligs = g.obligs
	for n := range g.notes {
		u.Notes = append(u.Notes, n)
	}
	sort.Strings(u.Notes)
	for n := range g.trusted {
		u.Trusted = append(u.Trusted, n)
	}
	sort.Strings(u.Trusted)
	return u
}

func runRoot(g *Gen, fn *ssa.Function, c *Contract, u *Unit) {
	fc := &FnCtx{g: g, fn: fn, c: c, prefix: "", noPanic: c.NoPanic, closures: map[ssa.Value]*closureInfo{}}
	fc.params = map[string]Val{}
	fc.preVals = map[ssa.Value]Val{}
	entry := g.initialState()
	fc.entry = entry
	fc.cur = entry
	fc.curReach = "true"
	u.ParamInfo = nil
	bind := func(v ssa.Value, name string) {
		t := g.fresh("p."+name, g.sortOf(v.Type()))
		x := Val{t: t, ty: v.Type()}
		fc.preVals[v] = x
		fc.params[name] = x
		if rc := g.sorts.rangeConstraint(v.Type(), t); rc != "" {
			g.assumeRaw(rc)
		}
		fc.boundRefs(v.Type(), t)
		u.ParamInfo = append(u.ParamInfo, ParamInfo{Name: name, Term: t, Type: types.TypeString(v.Type(), nil), Sort: g.sortOf(v.Type())})
	}
	for _, p := range fn.Params {
		bind(p, p.Name())
	}
	for _, fv := range fn.FreeVars {
		bind(fv, fv.Name())
	}
	g.assumeRaw(fmt.Sprintf("(and (<= %d %s) (< %s 1099511627776))", len(g.globals)+64, g.get(entry, "$alloc"), g.get(entry, "$alloc")))
	env := fc.envAt(entry, nil)
	env.oldState = entry
	u.env = env
	for _, r := range c.Requires {
		if strings.Contains(r.Src, "madeHere(") {
			// "the caller hands over an object of its own": an obligation of the callers, nothing the body may assume
			continue
		}
		g.assumeRaw(env.boolExpr(r.Expr))
	}
	for _, r := range c.Assumes {
		g.assumeRaw(env.boolExpr(r.Expr))
		g.trusted["assumed: "+relFuncName(fn)+": "+r.Src] = true
	}
	// uses L: the lemma L (proved as its own obligation of every property it is tagged with, or an axiom listed in the
	// trusted base) is available in this function
	for _, ln := range c.Uses {
		// uses L(e1, e2): the lemma instantiated with these (entry-state) expressions for its outermost variables
		var instArgs []*CNode
		if i := strings.Index(ln, "("); i > 0 && strings.HasSuffix(ln, ")") {
			n, err := parseCExpr(ln)
			if err != nil || n.Kind != "call" {
				cxFail("uses %s: cannot parse the instance", ln)
			}
			ln, instArgs = n.Name, n.Args
		}
		var lm *Lemma
		for _, l := range g.cs.Lemmas {
			if l.Name == ln {
				lm = l
			}
		}
		if lm == nil {
			cxFail("uses %s: no such lemma", ln)
		}
		for _, p := range c.Props {
			if !lm.Axiom && !contains(lm.Props, p) {
				cxFail("uses %s: the lemma is not proved under property %s (tag it with the property)", ln, p)
			}
		}
		lenv := env.sub()
		if lp := g.ld.typesPkg(lm.Pkg); lp != nil {
			lenv.pkg = lp
		}
		if instArgs != nil {
			body := lm.Expr
			if body.Kind != "quant" || body.Op != "forall" || len(body.Vars) != len(instArgs) {
				cxFail("uses %s: the lemma has not %d outermost variables", ln, len(instArgs))
			}
			for i, vn := range body.Vars {
				lenv.bound[vn] = env.expr(instArgs[i])
			}
			g.assumeRaw(lenv.boolExpr(body.Args[0]))
			continue
		}
		g.assumeRaw(lenv.boolExpr(lm.Expr))
	}
	// cover: precondition satisfiable (must be sat)
	g.seq++
	g.covers = append(g.covers, &Oblig{Name: relFuncName(fn) + "#cover(pre)", Kind: "cover", seq: g.seq, reach: "true", goal: "false", blk: -1})
	g.obligs = append(g.obligs, g.covers[len(g.covers)-1])

	g.curBlk = -1
	fc.genBody(entry, "true")
	g.curBlk = -1

	if len(fc.rets) == 0 {
		return
	}
	if c.SplitPosts {
		// one set of post / frame obligations per return statement: each sees only the code that can reach it
		_, rn := sigNames(fn.Signature, nil, true)
		for k, r := range fc.rets {
			fc.cur = r.state
			fc.curReach = r.reach
			g.curBlk = r.blk
			penv := fc.envAt(r.state, nil)
			penv.oldState = entry
			bindResults(penv, r.results, rn)
			for i, en := range c.Ensures {
				t := penv.boolExpr(en.Expr)
				o := fc.oblige("post", fmt.Sprint(i+1), fn.Pos(), t, en.Src, en.Name)
				o.Name += fmt.Sprintf("@return%d", k+1)
			}
			if c.ModSet {
				n0 := len(g.obligs)
				fc.frameObligations(entry, r.state, env, c)
				for _, o := range g.obligs[n0:] {
					o.Name += fmt.Sprintf("@return%d", k+1)
				}
			}
		}
		g.curBlk = -1
		reach, st, rs := fc.mergeRets()
		fc.cur = st
		fc.curReach = reach
		g.seq++
		g.obligs = append(g.obligs, &Oblig{Name: relFuncName(fn) + "#cover(return)", Kind: "cover", seq: g.seq, reach: reach, goal: "false", blk: -1})
		for i, r := range rs {
			u.ParamInfo = append(u.ParamInfo, ParamInfo{Name: fmt.Sprintf("result%d", i), Term: r.t, Type: types.TypeString(r.ty, nil), Sort: g.sortOf(r.ty)})
		}
		return
	}
	reach, st, rs := fc.mergeRets()
	fc.cur = st
	fc.curReach = reach
	// cover: some return reachable under pre
	g.seq++
	g.obligs = append(g.obligs, &Oblig{Name: relFuncName(fn) + "#cover(return)", Kind: "cover", seq: g.seq, reach: reach, goal: "false", blk: -1})
	penv := fc.envAt(st, nil)
	penv.oldState = entry
	_, rn := sigNames(fn.Signature, nil, true)
	bindResults(penv, rs, rn)
	for i, r := range rs {
		u.ParamInfo = append(u.ParamInfo, ParamInfo{Name: fmt.Sprintf("result%d", i), Term: r.t, Type: types.TypeString(r.ty, nil), Sort: g.sortOf(r.ty)})
	}
	for i, en := range c.Ensures {
		t := penv.boolExpr(en.Expr)
		fc.oblige("post", fmt.Sprint(i+1), fn.Pos(), t, en.Src, en.Name)
	}
	if c.ModSet {
		fc.frameObligations(entry, st, env, c)
	}
}

// frameObligations: everything outside the modifies clause is unchanged for pre-existing objects.
func (fc *FnCtx) frameObligations(entry, exit *State, env *Env, c *Contract) {
	g := fc.g
	targets, all := env.resolveModifies(c.Modifies)
	if all {
		// modifies * except K...: the listed keys are what must be preserved
		al0 := g.get(entry, "$alloc")
		for _, t := range targets {
			k := t.key
			a, b := g.get(entry, k), g.get(exit, k)
			if a == b {
				continue
			}
			var goal string
			if g.keys[k].kind == "ghost" {
				goal = fmt.Sprintf("(= %s %s)", a, b)
			} else {
				goal = fmt.Sprintf("(forall ((|o| Int)) (=> (<= |o| %s) (= (select %s |o|) (select %s |o|))))", al0, b, a)
			}
			fc.oblige("frame", k, fc.fn.Pos(), goal, "modifies "+strings.Join(c.Modifies, ", "), "")
		}
		return
	}
	allowed := map[string][]string{}
	whole := map[string]bool{}
	for _, t := range targets {
		if t.whole && t.fresh {
			continue
		}
		if t.whole {
			whole[t.key] = true
		} else {
			allowed[t.key] = append(allowed[t.key], t.obj)
		}
	}
	al0 := g.get(entry, "$alloc")
	for _, k := range g.keyOrder {
		ki := g.keys[k]
		if ki.kind == "alloc" || ki.kind == "visited" || ki.kind == "lockstate" || whole[k] {
			continue
		}
		if strings.HasPrefix(k, "A|go.uber.org.zap.") || k == "A|any" {
			// variadic argument arrays of logging calls: always freshly allocated, never part of a claim
			continue
		}
		a, b := g.get(entry, k), g.get(exit, k)
		if a == b {
			continue
		}
		var goal string
		if ki.kind == "ghost" {
			goal = fmt.Sprintf("(= %s %s)", a, b)
		} else {
			var ex []string
			for _, o := range allowed[k] {
				ex = append(ex, fmt.Sprintf("(not (= |o| %s))", o))
			}
			goal = fmt.Sprintf("(forall ((|o| Int)) (=> (and (<= |o| %s) %s) (= (select %s |o|) (select %s |o|))))", al0, and(ex), b, a)
		}
		fc.oblige("frame", k, fc.fn.Pos(), goal, "modifies "+strings.Join(c.Modifies, ", "), "")
	}
}

func (g *Gen) registerAxioms() {
	var names []string
	for n := range g.cs.UFuncs {
		names = append(names, n)
	}
	sort.Strings(names)
	for _, n := range names {
		uf := g.cs.UFuncs[n]
		smt := "|uf!" + n + "|"
		g.declareFun(smt, uf.Sig)
		var ret Val
		switch uf.Ret {
		case "Int":
			ret = Val{ty: tMath}
		case "Bool":
			ret = Val{ty: tBool}
		case "String":
			ret = Val{ty: tString}
		default:
			ret = Val{gk: "sort", gs: uf.Ret}
		}
		g.ufs[n] = ufDecl{smt: smt, ret: ret}
	}
}

// stubs for extension points -----------------------------------------------------

// funcParamCall: a call through a function-typed parameter that has a `funcparam` contract.
func (fc *FnCtx) funcParamCall(ins ssa.Instruction, cc *ssa.CallCommon, fv Val, args []Val, setResult func([]Val)) bool {
	// find the root-most context whose contract names this parameter
	name := ""
	v := cc.Value
	if ld, ok := v.(*ssa.UnOp); ok && ld.Op == token.MUL {
		// captured function variable: the free variable is a pointer to it
		if _, isFV := ld.X.(*ssa.FreeVar); isFV {
			v = ld.X
		}
	}
	switch p := v.(type) {
	case *ssa.Parameter:
		name = p.Name()
	case *ssa.FreeVar:
		name = p.Name()
	default:
		return false
	}
	for c := fc; c != nil; c = c.parent {
		if c.c != nil && c.c.FuncParams != nil {
			if fp, ok := c.c.FuncParams[name]; ok {
				sig := cc.Signature()
				fc.g.trusted["assumed: callbacks passed as "+c.c.Key+"."+name+" satisfy its funcparam contract (frame: "+strings.Join(fp.Modifies, ", ")+")"] = true
				setResult(fc.applyContract(ins, fp, c.c.Key+"."+name, sig, args, false, nil))
				return true
			}
		}
	}
	return false
}
