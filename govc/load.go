package main

import (
	"fmt"
	"go/token"
	"go/types"
	"os"
	"path/filepath"
	"strings"

	"golang.org/x/tools/go/packages"
	"golang.org/x/tools/go/ssa"
	"golang.org/x/tools/go/ssa/ssautil"
)

type Loader struct {
	fset          *token.FileSet
	pkgs          []*packages.Package
	prog          *ssa.Program
	spkgs         []*ssa.Package
	funcs         map[string]*ssa.Function // pkgpath::relname
	byPath        map[string]*packages.Package
	loaded        map[string]bool
	byName        map[string]*types.Package
	constGlobals  map[*ssa.Global]*ssa.Const // package-level variables initialised with a constant and never assigned again in the loaded packages
	nonNilGlobals map[*ssa.Global]bool       // package-level error variables initialised with errors.New(...) and never assigned again
}

func loadEnv() []string {
	env := os.Environ()
	env = append(env, "GOFLAGS=-mod=mod", "GOPROXY=off", "GOSUMDB=off", "GOTOOLCHAIN=local")
	return env
}

// loadModule loads packages (patterns relative to dir) with -tags=verif and builds SSA.
func loadModule(dir string, patterns []string) (*Loader, error) {
	fset := token.NewFileSet()
	cfg := &packages.Config{Mode: packages.LoadSyntax, Dir: dir, BuildFlags: []string{"-tags=verif"}, Fset: fset, Env: loadEnv()}
	pkgs, err := packages.Load(cfg, patterns...)
	if err != nil {
		return nil, err
	}
	var errs []string
	packages.Visit(pkgs, nil, func(p *packages.Package) {
		for _, e := range p.Errors {
			errs = append(errs, e.Error())
		}
	})
	if len(errs) > 0 {
		return nil, fmt.Errorf("package errors:\n%s", strings.Join(errs, "\n"))
	}
	prog, spkgs := ssautil.Packages(pkgs, ssa.InstantiateGenerics|ssa.GlobalDebug)
	prog.Build()
	ld := &Loader{fset: fset, pkgs: pkgs, prog: prog, spkgs: spkgs, funcs: map[string]*ssa.Function{}, byPath: map[string]*packages.Package{}, loaded: map[string]bool{}}
	for _, p := range pkgs {
		ld.byPath[p.PkgPath] = p
		ld.loaded[p.PkgPath] = true
	}
	for fn := range ssautil.AllFunctions(prog) {
		var pp string
		switch {
		case fn.Pkg != nil:
			pp = fn.Pkg.Pkg.Path()
		case fn.Parent() != nil:
			r := fn
			for r.Parent() != nil {
				r = r.Parent()
			}
			if r.Pkg != nil {
				pp = r.Pkg.Pkg.Path()
			}
		case fn.Object() != nil && fn.Object().Pkg() != nil:
			pp = fn.Object().Pkg().Path()
		}
		if pp == "" || !ld.loaded[pp] {
			// instantiations of generics from loaded packages have Pkg == nil
			if o := fn.Origin(); o != nil && o.Pkg != nil && ld.loaded[o.Pkg.Pkg.Path()] {
				pp = o.Pkg.Pkg.Path()
			} else {
				continue
			}
		}
		if fn.Blocks == nil {
			continue
		}
		rel := strings.ReplaceAll(fn.String(), pp+".", "")
		ld.funcs[pp+"::"+rel] = fn
	}
	return ld, nil
}

func (ld *Loader) typesPkg(path string) *types.Package {
	if p, ok := ld.byPath[path]; ok {
		return p.Types
	}
	return nil
}

// contracts collects //@ blocks from zz_contracts_verif.go files of the loaded packages.
func (ld *Loader) contracts(cs *ContractSet) {
	for _, p := range ld.pkgs {
		for i, f := range p.Syntax {
			name := filepath.Base(p.CompiledGoFiles[i])
			if !strings.HasPrefix(name, "zz_contracts") {
				continue
			}
			cs.parseFile(ld.fset, f, p.PkgPath)
		}
	}
}

// pkgByName finds a types.Package by its package name among everything the loaded packages import.
func (ld *Loader) pkgByName(name string) *types.Package {
	if ld.byName == nil {
		ld.byName = map[string]*types.Package{}
		seen := map[*types.Package]bool{}
		var walk func(p *types.Package)
		walk = func(p *types.Package) {
			if seen[p] {
				return
			}
			seen[p] = true
			if _, ok := ld.byName[p.Name()]; !ok {
				ld.byName[p.Name()] = p
			}
			for _, i := range p.Imports() {
				walk(i)
			}
		}
		for _, p := range ld.pkgs {
			walk(p.Types)
		}
	}
	return ld.byName[name]
}

// pkgByNameWith finds a package with the given name that declares sym.
func (ld *Loader) pkgByNameWith(name, sym string) *types.Package {
	ld.pkgByName(name)
	seen := map[*types.Package]bool{}
	var res *types.Package
	var walk func(p *types.Package)
	walk = func(p *types.Package) {
		if seen[p] || res != nil {
			return
		}
		seen[p] = true
		if p.Name() == name && p.Scope().Lookup(sym) != nil {
			res = p
			return
		}
		for _, i := range p.Imports() {
			walk(i)
		}
	}
	for _, p := range ld.pkgs {
		walk(p.Types)
	}
	return res
}

// constGlobal: the constant a package-level variable of a basic type is initialised with, if no function of the
// loaded packages other than the package initialiser ever stores to it or takes its address for anything but a load
// (var DroppedCollectionKey = "collection").  Packages that are not loaded could still assign an exported variable:
// that they do not is an assumption, recorded as a note by the caller.
func (ld *Loader) constGlobal(gl *ssa.Global) (*ssa.Const, bool) {
	if ld.constGlobals == nil {
		ld.constGlobals = map[*ssa.Global]*ssa.Const{}
		ld.nonNilGlobals = map[*ssa.Global]bool{}
		errInits := map[*ssa.Global]int{}
		inits := map[*ssa.Global][]*ssa.Const{}
		bad := map[*ssa.Global]bool{}
		for fn := range ssautil.AllFunctions(ld.prog) {
			isInit := fn.Name() == "init" && fn.Parent() == nil && fn.Signature.Recv() == nil
			for _, b := range fn.Blocks {
				for _, ins := range b.Instrs {
					for _, op := range ins.Operands(nil) {
						g0, ok := (*op).(*ssa.Global)
						if !ok {
							continue
						}
						switch x := ins.(type) {
						case *ssa.UnOp:
							if x.Op == token.MUL {
								continue // load
							}
							bad[g0] = true
						case *ssa.Store:
							if x.Addr == g0 && isInit && fn.Pkg == g0.Pkg {
								if c, ok := x.Val.(*ssa.Const); ok {
									inits[g0] = append(inits[g0], c)
									continue
								}
								if al, ok := x.Val.(*ssa.Alloc); ok && al.Heap {
									// var g = &T{...}: a pointer to a new object
									errInits[g0]++
									continue
								}
								if c, ok := x.Val.(*ssa.Call); ok {
									if cal := c.Call.StaticCallee(); cal != nil && (cal.String() == "errors.New" || cal.String() == "github.com/cockroachdb/errors.New" || cal.String() == "fmt.Errorf") {
										errInits[g0]++
										continue
									}
								}
							}
							bad[g0] = true
						case *ssa.DebugRef:
						default:
							bad[g0] = true
						}
					}
				}
			}
		}
		for g0, cs := range inits {
			if !bad[g0] && len(cs) == 1 {
				if _, ok := g0.Type().(*types.Pointer).Elem().Underlying().(*types.Basic); ok {
					ld.constGlobals[g0] = cs[0]
				}
			}
		}
		for g0, n := range errInits {
			if !bad[g0] && n == 1 {
				ld.nonNilGlobals[g0] = true
			}
		}
	}
	c, ok := ld.constGlobals[gl]
	return c, ok
}

// nonNilGlobal: a package-level error variable that is initialised with errors.New(...) and never assigned again.
func (ld *Loader) nonNilGlobal(gl *ssa.Global) bool {
	ld.constGlobal(gl)
	return ld.nonNilGlobals[gl]
}
