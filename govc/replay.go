package main

import (
	"bytes"
	"context"
	"encoding/json"
	"flag"
	"fmt"
	"go/types"
	"os"
	"os/exec"
	"path/filepath"
	"regexp"
	"strconv"
	"strings"
	"time"
)

type replayOut struct {
	path      string
	confirmed bool
}

type sx struct {
	atom   string
	list   []*sx
	isList bool
}

func parseSexps(s string) []*sx {
	var out []*sx
	var stack []*sx
	i := 0
	push := func(n *sx) {
		if len(stack) == 0 {
			out = append(out, n)
		} else {
			top := stack[len(stack)-1]
			top.list = append(top.list, n)
		}
	}
	for i < len(s) {
		c := s[i]
		switch {
		case c == ' ' || c == '\n' || c == '\t' || c == '\r':
			i++
		case c == ';':
			for i < len(s) && s[i] != '\n' {
				i++
			}
		case c == '(':
			n := &sx{isList: true}
			push(n)
			stack = append(stack, n)
			i++
		case c == ')':
			if len(stack) > 0 {
				stack = stack[:len(stack)-1]
			}
			i++
		case c == '"':
			j := i + 1
			for j < len(s) {
				if s[j] == '"' {
					if j+1 < len(s) && s[j+1] == '"' {
						j += 2
						continue
					}
					break
				}
				j++
			}
			push(&sx{atom: s[i:min(j+1, len(s))]})
			i = j + 1
		case c == '|':
			j := strings.IndexByte(s[i+1:], '|')
			if j < 0 {
				j = len(s) - i - 2
			}
			push(&sx{atom: s[i : i+j+2]})
			i = i + j + 2
		default:
			j := i
			for j < len(s) && !strings.ContainsRune(" \n\t\r()", rune(s[j])) {
				j++
			}
			push(&sx{atom: s[i:j]})
			i = j
		}
	}
	return out
}

func (n *sx) String() string {
	if !n.isList {
		return n.atom
	}
	var ps []string
	for _, c := range n.list {
		ps = append(ps, c.String())
	}
	return "(" + strings.Join(ps, " ") + ")"
}

// valuesFromOutput reads the (get-value ...) answer: map term -> value text.
func valuesFromOutput(out string) map[string]string {
	m := map[string]string{}
	for _, n := range parseSexps(out) {
		if !n.isList {
			continue
		}
		for _, p := range n.list {
			if p.isList && len(p.list) == 2 && !p.list[0].isList {
				m[strings.Trim(p.list[0].atom, "|")] = p.list[1].String()
			}
		}
	}
	return m
}

func smtIntToGo(v string) (string, bool) {
	v = strings.TrimSpace(v)
	v = strings.ReplaceAll(v, " ", "")
	if strings.HasPrefix(v, "(-") && strings.HasSuffix(v, ")") {
		return "-" + v[2:len(v)-1], true
	}
	if _, err := strconv.ParseInt(v, 10, 64); err == nil {
		return v, true
	}
	if _, err := strconv.ParseUint(v, 10, 64); err == nil {
		return v, true
	}
	return "", false
}

var uniEsc = regexp.MustCompile(`\\u\{([0-9a-fA-F]+)\}|\\u([0-9a-fA-F]{4})`)

func smtStrToGo(v string) (string, bool) {
	if len(v) < 2 || v[0] != '"' {
		return "", false
	}
	s := v[1 : len(v)-1]
	s = strings.ReplaceAll(s, "\"\"", "\"")
	s = uniEsc.ReplaceAllStringFunc(s, func(m string) string {
		sub := uniEsc.FindStringSubmatch(m)
		h := sub[1]
		if h == "" {
			h = sub[2]
		}
		n, _ := strconv.ParseInt(h, 16, 32)
		return string(rune(n))
	})
	return s, true
}

func goLiteral(t types.Type, v string, pkg *types.Package) (string, bool) {
	b, ok := t.Underlying().(*types.Basic)
	if !ok {
		return "", false
	}
	var lit string
	switch {
	case b.Info()&types.IsBoolean != 0:
		lit = v
	case b.Info()&types.IsInteger != 0:
		x, ok := smtIntToGo(v)
		if !ok {
			return "", false
		}
		lit = x
	case b.Info()&types.IsString != 0:
		x, ok := smtStrToGo(v)
		if !ok {
			return "", false
		}
		lit = strconv.Quote(x)
	default:
		return "", false
	}
	ts := types.TypeString(t, types.RelativeTo(pkg))
	return fmt.Sprintf("%s(%s)", ts, lit), true
}

func writeReplay(verif, repo, prop string, j *job, r *SolveResult) replayOut {
	o := j.o
	dir := filepath.Join(verif, "replays", prop)
	os.MkdirAll(dir, 0o755)
	base := sanitize(o.Name)
	if len(base) > 120 {
		base = base[:120]
	}
	path := filepath.Join(dir, base+".json")
	vals := valuesFromOutput(r.Output)
	model := map[string]string{}
	for _, p := range j.u.ParamInfo {
		if v, ok := vals[strings.Trim(p.Term, "|")]; ok {
			model[p.Name] = v
		}
	}
	outText := r.Output
	if len(outText) > 6000 {
		outText = outText[:6000] + "\n...truncated (re-run the check with -keep to get the SMT file and full model)"
	}
	rec := map[string]any{
		"property": prop, "failed_obligation": o.Name, "kind": o.Kind, "function": o.Func,
		"position": fmt.Sprintf("%s:%d", shortFile(o.Pos.Filename), o.Pos.Line), "clause": o.Clause,
		"solver_status": r.Status, "solver": r.Solver, "tried": r.Tried, "model": model, "solver_output": outText,
	}
	confirmed := false
	if r.Status == "sat" && j.u.fn != nil {
		ok, detail, testSrc := scalarReplay(repo, j, model)
		rec["replay"] = detail
		if testSrc != "" {
			tp := filepath.Join(dir, base+"_test.go.txt")
			os.WriteFile(tp, []byte(testSrc), 0o644)
			rec["replay_test"] = tp
		}
		confirmed = ok
	} else if r.Status != "sat" {
		rec["replay"] = "solver gave no model (" + r.Status + "): obligation that discharges on the pinned tree no longer does"
	}
	rec["confirmed_on_real_code"] = confirmed
	b, _ := json.MarshalIndent(rec, "", " ")
	os.WriteFile(path, b, 0o644)
	return replayOut{path: path, confirmed: confirmed}
}

// scalarReplay runs the real function on the model's inputs when all parameters are scalars.
func scalarReplay(repo string, j *job, model map[string]string) (bool, string, string) {
	fn := j.u.fn
	if fn.Signature.Recv() != nil || fn.Parent() != nil || fn.Pkg == nil {
		return false, "no automatic replay: function has a receiver or is a closure (heap inputs are not rebuilt from models)", ""
	}
	pkg := fn.Pkg.Pkg
	var args []string
	for _, p := range fn.Params {
		v, ok := model[p.Name()]
		if !ok {
			return false, "model has no value for " + p.Name(), ""
		}
		lit, ok := goLiteral(p.Type(), v, pkg)
		if !ok {
			return false, "no automatic replay: parameter " + p.Name() + " is not a scalar", ""
		}
		args = append(args, lit)
	}
	nres := fn.Signature.Results().Len()
	var lhs, fmts, rargs []string
	for i := 0; i < nres; i++ {
		if _, ok := fn.Signature.Results().At(i).Type().Underlying().(*types.Basic); !ok {
			return false, "no automatic replay: non-scalar result", ""
		}
		lhs = append(lhs, fmt.Sprintf("r%d", i))
		fmts = append(fmts, "%#v")
		rargs = append(rargs, fmt.Sprintf("r%d", i))
	}
	call := fmt.Sprintf("%s(%s)", fn.Name(), strings.Join(args, ", "))
	var body string
	if nres > 0 {
		body = fmt.Sprintf("%s := %s\n\tfmt.Printf(\"REPLAY-RESULT: %s\\n\", %s)", strings.Join(lhs, ", "), call, strings.Join(fmts, "|"), strings.Join(rargs, ", "))
	} else {
		body = call + "\n\tfmt.Println(\"REPLAY-RESULT:\")"
	}
	src := fmt.Sprintf(`package %s

import (
	"fmt"
	"testing"
)

// generated by govc from a solver model: replays the counterexample on the real function
func TestVerifReplay(t *testing.T) {
	defer func() {
		if r := recover(); r != nil {
			fmt.Printf("REPLAY-PANIC: %%v\n", r)
		}
	}()
	%s
}
`, pkg.Name(), body)
	// locate package dir
	pos := j.u.g.ld.fset.Position(fn.Pos())
	pkgDir := filepath.Dir(pos.Filename)
	out, err := runOverlayTest(pkgDir, src)
	if err != nil && out == "" {
		return false, "replay run failed: " + err.Error(), src
	}
	detail := "real code: "
	var real []string
	panicked := false
	for _, l := range strings.Split(out, "\n") {
		if strings.HasPrefix(l, "REPLAY-RESULT:") {
			real = strings.Split(strings.TrimSpace(strings.TrimPrefix(l, "REPLAY-RESULT:")), "|")
			detail += l
		}
		if strings.HasPrefix(l, "REPLAY-PANIC:") {
			panicked = true
			detail += l
		}
	}
	switch j.o.Kind {
	case "nil", "bounds", "div0", "never-panics", "typeassert", "nil-map", "makeslice":
		return panicked, detail + fmt.Sprintf(" ; call %s", call), src
	}
	if panicked {
		return true, detail + " ; call " + call + " panicked", src
	}
	if real == nil {
		return false, "replay produced no result: " + tail(out, 400), src
	}
	// compare with the model's prediction of the results
	same := true
	var pred []string
	for i := 0; i < nres; i++ {
		mv := model[fmt.Sprintf("result%d", i)]
		lit, ok := goLiteral(fn.Signature.Results().At(i).Type(), mv, pkg)
		if !ok {
			same = false
			continue
		}
		// compare the underlying literal
		inner := lit[strings.Index(lit, "(")+1 : len(lit)-1]
		pred = append(pred, inner)
		got := ""
		if i < len(real) {
			got = real[i]
		}
		if got != inner {
			// %#v of named ints prints the number, of strings a quoted string
			if uq, err := strconv.Unquote(got); err == nil {
				if uq2, err2 := strconv.Unquote(inner); err2 == nil && uq == uq2 {
					continue
				}
			}
			same = false
		}
	}
	detail += fmt.Sprintf(" ; call %s ; model predicted results %v", call, pred)
	if same {
		detail += " ; real results equal the model's: the violated clause is false on the real code for this input"
	} else {
		detail += " ; real results differ from the model's prediction"
	}
	return same, detail, src
}

func tail(s string, n int) string {
	if len(s) > n {
		return s[len(s)-n:]
	}
	return s
}

// runOverlayTest injects an in-package test with -overlay and runs it.
func runOverlayTest(pkgDir, src string) (string, error) {
	tmp, err := os.MkdirTemp("", "govc-replay-")
	if err != nil {
		return "", err
	}
	defer os.RemoveAll(tmp)
	tf := filepath.Join(tmp, "zz_verif_replay_test.go")
	os.WriteFile(tf, []byte(src), 0o644)
	ov := map[string]any{"Replace": map[string]string{filepath.Join(pkgDir, "zz_verif_replay_test.go"): tf}}
	ob, _ := json.Marshal(ov)
	of := filepath.Join(tmp, "ov.json")
	os.WriteFile(of, ob, 0o644)
	ctx, cancel := context.WithTimeout(context.Background(), 300*time.Second)
	defer cancel()
	cmd := exec.CommandContext(ctx, "go", "test", "-overlay", of, "-vet=off", "-count=1", "-v", "-timeout", "60s", "-run", "^TestVerifReplay$", ".")
	cmd.Dir = pkgDir
	cmd.Env = loadEnv()
	var out bytes.Buffer
	cmd.Stdout = &out
	cmd.Stderr = &out
	err = cmd.Run()
	return out.String(), err
}

func cmdReplay(args []string) int {
	fs := flag.NewFlagSet("replay", flag.ExitOnError)
	fs.Parse(args)
	if fs.NArg() < 1 {
		fmt.Fprintln(os.Stderr, "usage: govc replay <replay.json>")
		return 2
	}
	b, err := os.ReadFile(fs.Arg(0))
	if err != nil {
		fmt.Fprintln(os.Stderr, err)
		return 2
	}
	var rec map[string]any
	json.Unmarshal(b, &rec)
	fmt.Printf("property: %v\nfailed obligation: %v\nclause: %v\nat: %v\nsolver: %v (%v)\nmodel: %v\nreplay: %v\n",
		rec["property"], rec["failed_obligation"], rec["clause"], rec["position"], rec["solver"], rec["solver_status"], rec["model"], rec["replay"])
	if tp, ok := rec["replay_test"].(string); ok {
		src, err := os.ReadFile(tp)
		if err == nil {
			pos := fmt.Sprint(rec["position"])
			dir := filepath.Join("/repo", filepath.Dir(strings.Split(pos, ":")[0]))
			out, _ := runOverlayTest(dir, string(src))
			fmt.Println(out)
		}
	}
	return 0
}
