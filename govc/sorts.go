package main

// Mapping of Go types to SMT sorts, zero values, range constraints.

import (
	"fmt"
	"go/types"
	"math/big"
	"strings"
)

func sanitize(s string) string {
	var sb strings.Builder
	for _, c := range s {
		switch {
		case c >= 'a' && c <= 'z', c >= 'A' && c <= 'Z', c >= '0' && c <= '9', c == '_', c == '.':
			sb.WriteRune(c)
		case c == '/':
			sb.WriteRune('.')
		case c == '*':
			sb.WriteString("P_")
		case c == '[':
			sb.WriteString("L_")
		case c == ']':
			sb.WriteString("_R")
		case c == ' ':
		default:
			sb.WriteString(fmt.Sprintf("_%x_", c))
		}
	}
	return sb.String()
}

func shortPkg(s string) string {
	s = strings.ReplaceAll(s, "github.com/zilliztech/milvus-cdc/", "")
	s = strings.ReplaceAll(s, "github.com/milvus-io/milvus-proto/go-api/v2/", "mp.")
	s = strings.ReplaceAll(s, "github.com/milvus-io/milvus/pkg/", "mk.")
	s = strings.ReplaceAll(s, "github.com/milvus-io/milvus/", "mv.")
	return s
}

func typeKey(t types.Type) string {
	return sanitize(shortPkg(types.TypeString(unaliasDeep(t), nil)))
}

// unaliasDeep replaces alias types (type A = B) by what they stand for, also below pointers, slices, arrays,
// maps and channels: A and B are the same type and must share heap arrays, sorts and type tags.
func unaliasDeep(t types.Type) types.Type {
	switch x := t.(type) {
	case *types.Alias:
		return unaliasDeep(types.Unalias(x))
	case *types.Pointer:
		if e := unaliasDeep(x.Elem()); e != x.Elem() {
			return types.NewPointer(e)
		}
	case *types.Slice:
		if e := unaliasDeep(x.Elem()); e != x.Elem() {
			return types.NewSlice(e)
		}
	case *types.Array:
		if e := unaliasDeep(x.Elem()); e != x.Elem() {
			return types.NewArray(e, x.Len())
		}
	case *types.Map:
		k, e := unaliasDeep(x.Key()), unaliasDeep(x.Elem())
		if k != x.Key() || e != x.Elem() {
			return types.NewMap(k, e)
		}
	case *types.Chan:
		if e := unaliasDeep(x.Elem()); e != x.Elem() {
			return types.NewChan(x.Dir(), e)
		}
	}
	return t
}

// Sorts collects on-demand sort declarations.
type Sorts struct {
	decl     []string          // emitted declarations in order
	structs  map[string]string // typeKey -> sort name
	seen     map[string]bool
	boxes    map[string]bool
	typeIDs  map[string]int
	typeOf   map[int]types.Type
	fieldIDs map[string]int
}

func newSorts() *Sorts {
	s := &Sorts{structs: map[string]string{}, seen: map[string]bool{}, boxes: map[string]bool{}, typeIDs: map[string]int{}, typeOf: map[int]types.Type{}}
	s.decl = append(s.decl,
		"(declare-datatypes ((Slice 0)) (((mkslice (sarr Int) (soff Int) (slen Int) (scap Int)))))",
		"(declare-datatypes ((Iface 0)) (((mkiface (itag Int) (ival Int)))))",
		"(define-fun nilslice () Slice (mkslice 0 0 0 0))",
		"(define-fun niliface () Iface (mkiface 0 0))",
		// ix(off, i) = off + i: position of element i of a slice in its backing array.  Kept as a function symbol so
		// that quantifier patterns over slice elements contain no arithmetic.
		"(declare-fun |ix| (Int Int) Int)",
		"(assert (forall ((o Int) (i Int)) (! (= (|ix| o i) (+ o i)) :pattern ((|ix| o i)))))",
	)
	return s
}

func (s *Sorts) emit(line string) { s.decl = append(s.decl, line) }

func (s *Sorts) fieldID(k string) int {
	if s.fieldIDs == nil {
		s.fieldIDs = map[string]int{}
	}
	if id, ok := s.fieldIDs[k]; ok {
		return id
	}
	id := len(s.fieldIDs) + 1
	if id >= 4096 {
		panic("too many interior fields")
	}
	s.fieldIDs[k] = id
	return id
}

func (s *Sorts) typeID(t types.Type) int {
	t = unaliasDeep(t)
	k := types.TypeString(t, nil)
	if id, ok := s.typeIDs[k]; ok {
		return id
	}
	id := len(s.typeIDs) + 1
	s.typeIDs[k] = id
	s.typeOf[id] = t
	return id
}

func isPointerLike(t types.Type) bool {
	switch t.Underlying().(type) {
	case *types.Pointer, *types.Map, *types.Chan, *types.Signature:
		return true
	case *types.Basic:
		return t.Underlying().(*types.Basic).Kind() == types.UnsafePointer
	}
	return false
}

func (s *Sorts) sortOf(t types.Type) string {
	switch u := t.Underlying().(type) {
	case *types.Basic:
		switch {
		case u.Info()&types.IsBoolean != 0:
			return "Bool"
		case u.Info()&types.IsInteger != 0:
			return "Int"
		case u.Info()&types.IsString != 0:
			return "String"
		case u.Info()&types.IsFloat != 0:
			return "Real"
		case u.Kind() == types.UnsafePointer:
			return "Int"
		case u.Kind() == types.UntypedNil:
			return "Int"
		}
		return "Int"
	case *types.Pointer, *types.Map, *types.Chan, *types.Signature:
		return "Int"
	case *types.Slice:
		return "Slice"
	case *types.Interface:
		return "Iface"
	case *types.Array:
		return "(Array Int " + s.sortOf(u.Elem()) + ")"
	case *types.Struct:
		return s.structSort(t, u)
	case *types.Tuple:
		return "Int" // never used as a value
	case *types.TypeParam:
		return "Int"
	}
	return "Int"
}

func (s *Sorts) structSort(t types.Type, u *types.Struct) string {
	k := typeKey(t)
	if n, ok := s.structs[k]; ok {
		return n
	}
	name := "S|" + k + "|"
	if u.NumFields() == 0 {
		name = "S|empty" + fmt.Sprint(len(s.structs)) + "|"
	}
	name = "|" + strings.ReplaceAll(name, "|", "!") + "|"
	s.structs[k] = name
	// field sorts first (may recursively declare)
	var fs []string
	for i := 0; i < u.NumFields(); i++ {
		fs = append(fs, fmt.Sprintf("(%s %s)", s.structSel(t, i), s.sortOf(u.Field(i).Type())))
	}
	s.emit(fmt.Sprintf("(declare-datatypes ((%s 0)) (((%s %s))))", name, s.structCons(t), strings.Join(fs, " ")))
	return name
}

func (s *Sorts) structCons(t types.Type) string {
	return "|mk!" + typeKey(t) + "|"
}

func (s *Sorts) structSel(t types.Type, i int) string {
	u := t.Underlying().(*types.Struct)
	return "|" + typeKey(t) + "!" + fmt.Sprint(i) + "!" + u.Field(i).Name() + "|"
}

func (s *Sorts) zero(t types.Type) string {
	switch u := t.Underlying().(type) {
	case *types.Basic:
		switch {
		case u.Info()&types.IsBoolean != 0:
			return "false"
		case u.Info()&types.IsString != 0:
			return "\"\""
		case u.Info()&types.IsFloat != 0:
			return "0.0"
		}
		return "0"
	case *types.Slice:
		return "(mkslice 0 0 0 0)"
	case *types.Interface:
		return "(mkiface 0 0)"
	case *types.Array:
		return fmt.Sprintf("((as const %s) %s)", s.sortOf(t), s.zero(u.Elem()))
	case *types.Struct:
		s.sortOf(t)
		if u.NumFields() == 0 {
			return s.structCons(t)
		}
		var fs []string
		for i := 0; i < u.NumFields(); i++ {
			fs = append(fs, s.zero(u.Field(i).Type()))
		}
		return "(" + s.structCons(t) + " " + strings.Join(fs, " ") + ")"
	}
	return "0"
}

// intRange returns (lo, hi, ok) for integer types.
func intRange(t types.Type) (*big.Int, *big.Int, bool) {
	b, ok := t.Underlying().(*types.Basic)
	if !ok || b.Info()&types.IsInteger == 0 {
		return nil, nil, false
	}
	bits := 64
	signed := true
	switch b.Kind() {
	case types.Int8:
		bits = 8
	case types.Int16:
		bits = 16
	case types.Int32:
		bits = 32
	case types.Int64, types.Int:
		bits = 64
	case types.Uint8:
		bits, signed = 8, false
	case types.Uint16:
		bits, signed = 16, false
	case types.Uint32:
		bits, signed = 32, false
	case types.Uint64, types.Uint, types.Uintptr:
		bits, signed = 64, false
	case types.UntypedInt, types.UntypedRune:
		return nil, nil, false
	}
	one := big.NewInt(1)
	if signed {
		hi := new(big.Int).Lsh(one, uint(bits-1))
		lo := new(big.Int).Neg(hi)
		hi.Sub(hi, one)
		return lo, hi, true
	}
	hi := new(big.Int).Lsh(one, uint(bits))
	hi.Sub(hi, one)
	return big.NewInt(0), hi, true
}

func smtInt(b *big.Int) string {
	if b.Sign() < 0 {
		return "(- " + new(big.Int).Neg(b).String() + ")"
	}
	return b.String()
}

// rangeConstraint returns an SMT Bool term constraining term to t's range, "" if none.
// Also adds non-negativity of slice len etc.
func (s *Sorts) rangeConstraint(t types.Type, term string) string {
	if lo, hi, ok := intRange(t); ok {
		return fmt.Sprintf("(and (<= %s %s) (<= %s %s))", smtInt(lo), term, term, smtInt(hi))
	}
	if b, ok := t.Underlying().(*types.Basic); ok && b.Info()&types.IsString != 0 {
		// a string fits in the address space
		return fmt.Sprintf("(<= (str.len %s) 72057594037927936)", term)
	}
	switch u := t.Underlying().(type) {
	case *types.Slice:
		// lengths and capacities are bounded by the address space (2^56 elements)
		return fmt.Sprintf("(and (<= 0 (slen %s)) (<= (slen %s) (scap %s)) (<= (scap %s) 72057594037927936) (<= 0 (soff %s)) (<= (soff %s) 72057594037927936) (<= 0 (sarr %s)) (=> (= (sarr %s) 0) (= (scap %s) 0)))", term, term, term, term, term, term, term, term, term)
	case *types.Pointer, *types.Map, *types.Chan, *types.Signature:
		return fmt.Sprintf("(<= 0 %s)", term)
	case *types.Interface:
		return fmt.Sprintf("(and (<= 0 (itag %s)) (=> (= (itag %s) 0) (= (ival %s) 0)))", term, term, term)
	case *types.Struct:
		var cs []string
		for i := 0; i < u.NumFields(); i++ {
			c := s.rangeConstraint(u.Field(i).Type(), fmt.Sprintf("(%s %s)", s.structSel(t, i), term))
			if c != "" {
				cs = append(cs, c)
			}
		}
		if len(cs) == 0 {
			return ""
		}
		if len(cs) == 1 {
			return cs[0]
		}
		return "(and " + strings.Join(cs, " ") + ")"
	}
	return ""
}

// wrap returns term wrapped into the range of integer type t.
func wrapInt(t types.Type, term string) string {
	lo, hi, ok := intRange(t)
	if !ok {
		return term
	}
	mod := new(big.Int).Sub(hi, lo)
	mod.Add(mod, big.NewInt(1))
	if lo.Sign() == 0 {
		return fmt.Sprintf("(mod %s %s)", term, mod.String())
	}
	off := new(big.Int).Neg(lo)
	return fmt.Sprintf("(- (mod (+ %s %s) %s) %s)", term, off.String(), mod.String(), off.String())
}

func smtString(s string) string {
	var sb strings.Builder
	sb.WriteByte('"')
	for _, c := range s {
		switch {
		case c == '"':
			sb.WriteString("\"\"")
		case c < 32 || c > 126 || c == '\\':
			sb.WriteString(fmt.Sprintf("\\u{%x}", c))
		default:
			sb.WriteRune(c)
		}
	}
	sb.WriteByte('"')
	return sb.String()
}
