package main

import (
	"fmt"
	"go/ast"
	"go/token"
	"go/types"
	"regexp"
	"sort"
	"strconv"
	"strings"

	"golang.org/x/tools/go/ssa"
)

func strconvUnquote(s string) (string, error) { return strconv.Unquote(s) }

func (fc *FnCtx) setVal(v ssa.Value, t string) Val {
	x := Val{t: t, ty: v.Type()}
	fc.vals[v] = x
	return x
}

func (fc *FnCtx) defVal(v ssa.Value, term string) Val {
	g := fc.g
	name := g.def(fc.name(v), g.sortOf(v.Type()), term)
	return fc.setVal(v, name)
}

func (fc *FnCtx) freshVal(v ssa.Value, why string) Val {
	g := fc.g
	name := g.fresh(fc.name(v), g.sortOf(v.Type()))
	x := fc.setVal(v, name)
	if rc := g.sorts.rangeConstraint(v.Type(), name); rc != "" {
		fc.assume(rc, "range")
	}
	fc.boundRefs(v.Type(), name)
	return x
}

// boundRefs assumes that references inside a value obtained from the heap / a call are
// already allocated (<= $alloc).
func (fc *FnCtx) boundRefs(t types.Type, term string) {
	g := fc.g
	al := g.get(fc.cur, "$alloc")
	switch t.Underlying().(type) {
	case *types.Pointer, *types.Map, *types.Chan:
		fc.assume(fmt.Sprintf("(<= %s %s)", term, al), "allocated")
	case *types.Slice:
		fc.assume(fmt.Sprintf("(<= (sarr %s) %s)", term, al), "allocated")
	}
}

func (fc *FnCtx) newRef() string {
	g := fc.g
	al := g.get(fc.cur, "$alloc")
	r := g.def(fc.prefix+"new", "Int", fmt.Sprintf("(+ %s 1)", al))
	g.set(fc.cur, "$alloc", r)
	return r
}

func (fc *FnCtx) unsupported(ins ssa.Instruction, what string) {
	g := fc.g
	p := g.ld.fset.Position(posOf(ins))
	msg := fmt.Sprintf("%s: %s abstracted (havoc) at %s:%d", relFuncName(fc.fn), what, shortFile(p.Filename), p.Line)
	g.note("abstracted: " + msg)
	g.havocAll(fc.cur, what)
	if v, ok := ins.(ssa.Value); ok {
		fc.freshVal(v, what)
	}
}

var repoRoot = "/repo"

func shortFile(f string) string {
	return strings.TrimPrefix(strings.TrimPrefix(f, repoRoot), "/")
}

// panicSite: an explicit or implicit panic condition `bad` (Bool term).
var constBounds = regexp.MustCompile(`^\(and \(<= 0 (\d+)\) \(< (\d+) (\d+)\)\)$`)

func (fc *FnCtx) safety(kind string, pos token.Pos, ok string) {
	if ok == "true" {
		return
	}
	if m := constBounds.FindStringSubmatch(ok); m != nil {
		a, _ := strconv.Atoi(m[2])
		b, _ := strconv.Atoi(m[3])
		if a < b {
			return
		}
	}
	if fc.noPanic {
		fc.oblige(kind, "", pos, ok, "", "")
	}
	// after the check execution continues only if ok
	fc.assume(ok, "no panic: "+kind)
}

// ---------------------------------------------------------------------------
// locations

func (fc *FnCtx) locOf(p ssa.Value) *Loc {
	if l, ok := fc.locs[p]; ok {
		return l
	}
	pt, ok := p.Type().Underlying().(*types.Pointer)
	if !ok {
		return nil
	}
	v := fc.term(p)
	return &Loc{kind: "cell", obj: v.t, elem: pt.Elem()}
}

func (fc *FnCtx) applyPath(root string, path []pathStep) string {
	t := root
	for _, s := range path {
		if s.arr {
			t = fmt.Sprintf("(select %s %s)", t, s.idx)
		} else {
			t = fmt.Sprintf("(%s %s)", fc.g.sorts.structSel(s.T, s.fld), t)
		}
	}
	return t
}

func (fc *FnCtx) updPath(root string, path []pathStep, nv string) string {
	if len(path) == 0 {
		return nv
	}
	s := path[0]
	if s.arr {
		inner := fc.updPath(fmt.Sprintf("(select %s %s)", root, s.idx), path[1:], nv)
		return fmt.Sprintf("(store %s %s %s)", root, s.idx, inner)
	}
	st := s.T.Underlying().(*types.Struct)
	fc.g.sortOf(s.T)
	var fs []string
	for i := 0; i < st.NumFields(); i++ {
		cur := fmt.Sprintf("(%s %s)", fc.g.sorts.structSel(s.T, i), root)
		if i == s.fld {
			cur = fc.updPath(cur, path[1:], nv)
		}
		fs = append(fs, cur)
	}
	return "(" + fc.g.sorts.structCons(s.T) + " " + strings.Join(fs, " ") + ")"
}

// loadLoc reads the value of type ty at loc.
func (fc *FnCtx) loadLoc(l *Loc, ty types.Type) string {
	g := fc.g
	switch l.kind {
	case "field":
		k := g.fieldKey(l.T, l.fld)
		root := fmt.Sprintf("(select %s %s)", g.get(fc.cur, k), l.obj)
		return fc.applyPath(root, l.path)
	case "elem":
		k := g.arrKey(l.elem)
		root := fmt.Sprintf("(select (select %s %s) %s)", g.get(fc.cur, k), l.obj, l.idx)
		return fc.applyPath(root, l.path)
	case "cell":
		if len(l.path) == 0 {
			return fc.loadWhole(l.obj, l.elem)
		}
		// cell with path: cell of struct type is stored field-wise
		panic("cell path")
	}
	panic("bad loc")
}

// loadWhole reads *p for p : *T.
func (fc *FnCtx) loadWhole(p string, T types.Type) string {
	g := fc.g
	switch u := T.Underlying().(type) {
	case *types.Struct:
		g.sortOf(T)
		if u.NumFields() == 0 {
			return g.sorts.structCons(T)
		}
		var fs []string
		for i := 0; i < u.NumFields(); i++ {
			fs = append(fs, fmt.Sprintf("(select %s %s)", g.get(fc.cur, g.fieldKey(T, i)), p))
		}
		return "(" + g.sorts.structCons(T) + " " + strings.Join(fs, " ") + ")"
	case *types.Array:
		return fmt.Sprintf("(select %s %s)", g.get(fc.cur, g.arrKey(u.Elem())), p)
	}
	return fmt.Sprintf("(select %s %s)", g.get(fc.cur, g.cellKey(T)), p)
}

func (fc *FnCtx) storeWhole(p string, T types.Type, v string) {
	g := fc.g
	switch u := T.Underlying().(type) {
	case *types.Struct:
		for i := 0; i < u.NumFields(); i++ {
			k := g.fieldKey(T, i)
			g.set(fc.cur, k, fmt.Sprintf("(store %s %s (%s %s))", g.get(fc.cur, k), p, g.sorts.structSel(T, i), v))
		}
		return
	case *types.Array:
		k := g.arrKey(u.Elem())
		g.set(fc.cur, k, fmt.Sprintf("(store %s %s %s)", g.get(fc.cur, k), p, v))
		return
	}
	k := g.cellKey(T)
	g.set(fc.cur, k, fmt.Sprintf("(store %s %s %s)", g.get(fc.cur, k), p, v))
}

func (fc *FnCtx) storeLoc(l *Loc, v string) {
	g := fc.g
	switch l.kind {
	case "field":
		k := g.fieldKey(l.T, l.fld)
		h := g.get(fc.cur, k)
		nv := v
		if len(l.path) > 0 {
			nv = fc.updPath(fmt.Sprintf("(select %s %s)", h, l.obj), l.path, v)
		}
		g.set(fc.cur, k, fmt.Sprintf("(store %s %s %s)", h, l.obj, nv))
	case "elem":
		k := g.arrKey(l.elem)
		h := g.get(fc.cur, k)
		arr := fmt.Sprintf("(select %s %s)", h, l.obj)
		nv := v
		if len(l.path) > 0 {
			nv = fc.updPath(fmt.Sprintf("(select %s %s)", arr, l.idx), l.path, v)
		}
		g.set(fc.cur, k, fmt.Sprintf("(store %s %s (store %s %s %s))", h, l.obj, arr, l.idx, nv))
	case "cell":
		fc.storeWhole(l.obj, l.elem, v)
	}
}

// fieldAddrTerm gives an identity term for interior pointers.
func (fc *FnCtx) interiorTerm(base string, T types.Type, fld int) string {
	g := fc.g
	st := T.Underlying().(*types.Struct)
	// address of a value-typed field: an injective function of (object, field), outside the range of
	// object references (objects are numbered below 2^40: assumed at function entry)
	id := g.sorts.fieldID(typeKey(T) + "." + st.Field(fld).Name())
	return fmt.Sprintf("(+ 1125899906842624 (* %s 4096) %d)", base, id)
}

// ---------------------------------------------------------------------------

func (fc *FnCtx) instr(ins ssa.Instruction) {
	g := fc.g
	switch x := ins.(type) {
	case *ssa.DebugRef:
		// source-level names of locals (for loop invariants)
		if id, ok := x.Expr.(*ast.Ident); ok && !x.IsAddr {
			if v, ok := fc.vals[x.X]; ok {
				if fc.debugNames == nil {
					fc.debugNames = map[string]Val{}
				}
				fc.debugNames[id.Name] = Val{t: v.t, ty: x.X.Type(), tuple: v.tuple}
				if fc.debugDefBlock == nil {
					fc.debugDefBlock = map[string]*ssa.BasicBlock{}
				}
				if di, ok := x.X.(ssa.Instruction); ok && di.Block() != nil {
					fc.debugDefBlock[id.Name] = di.Block()
				} else {
					delete(fc.debugDefBlock, id.Name)
				}
			}
		}
	case *ssa.If, *ssa.Jump:
		fc.setEdges(ins.Block())
	case *ssa.Return:
		var rs []Val
		for _, r := range x.Results {
			rs = append(rs, fc.term(r))
		}
		if !fc.inlined {
			// vacuity guard: every return statement must be reachable under the assumptions made so far
			g.seq++
			p := g.ld.fset.Position(posOf(ins))
			g.obligs = append(g.obligs, &Oblig{Name: fmt.Sprintf("%s#cover(return@%d)", relFuncName(g.rootFn), len(fc.rets)+1), Kind: "cover", Func: relFuncName(fc.fn), Pos: p, seq: g.seq, reach: fc.curReach, goal: "false", blk: g.curBlk})
		}
		fc.pendingResults = rs
		fc.applyGhostSets("return")
		fc.rets = append(fc.rets, retRec{reach: fc.curReach, state: fc.cur.clone(), results: rs, blk: g.curBlk})
	case *ssa.Panic:
		if fc.noPanic {
			fc.oblige("never-panics", "", posOf(ins), "false", "", "")
		} else {
			g.note(fmt.Sprintf("explicit panic site assumed unreachable: %s", fc.posStr(ins)))
		}
		fc.assume("false", "panic")
	case *ssa.RunDefers:
		fc.runDefers(x)
	case *ssa.Defer:
		d := deferRec{instr: x, cond: fc.curReach}
		for _, a := range x.Call.Args {
			d.args = append(d.args, fc.term(a))
		}
		if !x.Call.IsInvoke() {
			if _, isB := x.Call.Value.(*ssa.Builtin); !isB {
				d.callee = fc.term(x.Call.Value)
			}
		} else {
			d.callee = fc.term(x.Call.Value)
		}
		fc.defers = append(fc.defers, d)
	case *ssa.Go:
		g.note("goroutine spawn not modelled (sequential reasoning per goroutine / critical section): " + fc.posStr(ins))
	case *ssa.Alloc:
		g.markAlloc(x.Type())
		r := fc.newRef()
		fc.setVal(x, r)
		T := x.Type().Underlying().(*types.Pointer).Elem()
		fc.storeWhole(r, T, g.sorts.zero(T))
		if _, isArr := T.Underlying().(*types.Array); isArr {
			// arrays behind pointers are backing arrays
		}
		if x.Comment != "" {
			fc.named[x.Comment] = x
		}
	case *ssa.Store:
		l := fc.locOf(x.Addr)
		fc.nilCheck(x.Addr, ins)
		if l.kind == "field" {
			fc.lockHeld(l.T, l.fld, l.obj, true, ins)
		}
		fc.storeLoc(l, fc.term(x.Val).t)
		if al, ok := x.Addr.(*ssa.Alloc); ok && isConstAlloc(al) {
			if g.constVal == nil {
				g.constVal = map[ssa.Value]Val{}
			}
			v := fc.term(x.Val)
			g.constVal[al] = v
			if ci, ok := fc.closures[x.Val]; ok {
				fc.closures[al] = ci
				if g.constClosure == nil {
					g.constClosure = map[ssa.Value]*closureInfo{}
				}
				g.constClosure[al] = ci
			}
		}
	case *ssa.UnOp:
		fc.unop(x)
	case *ssa.BinOp:
		fc.binop(x)
	case *ssa.Phi:
	case *ssa.FieldAddr:
		base := fc.term(x.X)
		T := x.X.Type().Underlying().(*types.Pointer).Elem()
		fc.nilCheck(x.X, ins)
		if bl, ok := fc.locs[x.X]; ok && !(bl.kind == "cell") {
			nl := *bl
			nl.path = append(append([]pathStep{}, bl.path...), pathStep{T: T, fld: x.Field})
			fc.locs[x] = &nl
		} else {
			fc.locs[x] = &Loc{kind: "field", obj: base.t, T: T, fld: x.Field, elem: x.Type().Underlying().(*types.Pointer).Elem()}
		}
		fc.defVal(x, fc.interiorTerm(base.t, T, x.Field))
	case *ssa.Field:
		base := fc.term(x.X)
		fc.defVal(x, fmt.Sprintf("(%s %s)", g.sorts.structSel(x.X.Type(), x.Field), base.t))
	case *ssa.IndexAddr:
		fc.indexAddr(x)
	case *ssa.Index:
		base := fc.term(x.X)
		idx := fc.term(x.Index)
		switch u := x.X.Type().Underlying().(type) {
		case *types.Array:
			fc.safety("bounds", posOf(ins), fmt.Sprintf("(and (<= 0 %s) (< %s %d))", idx.t, idx.t, u.Len()))
			fc.defVal(x, fmt.Sprintf("(select %s %s)", base.t, idx.t))
		case *types.Basic: // string
			fc.safety("bounds", posOf(ins), fmt.Sprintf("(and (<= 0 %s) (< %s (str.len %s)))", idx.t, idx.t, base.t))
			fc.defVal(x, fmt.Sprintf("(str.to_code (str.at %s %s))", base.t, idx.t))
		default:
			fc.unsupported(ins, "index")
		}
	case *ssa.Slice:
		fc.sliceOp(x)
	case *ssa.MakeSlice:
		g.markAlloc(x.Type())
		r := fc.newRef()
		n := fc.term(x.Len).t
		c := fc.term(x.Cap).t
		et := x.Type().Underlying().(*types.Slice).Elem()
		k := g.arrKey(et)
		fc.safety("makeslice", posOf(ins), fmt.Sprintf("(and (<= 0 %s) (<= %s %s))", n, n, c))
		g.set(fc.cur, k, fmt.Sprintf("(store %s %s ((as const (Array Int %s)) %s))", g.get(fc.cur, k), r, g.sortOf(et), g.sorts.zero(et)))
		fc.defVal(x, fmt.Sprintf("(mkslice %s 0 %s %s)", r, n, c))
	case *ssa.MakeMap:
		g.markAlloc(x.Type())
		r := fc.newRef()
		mt := x.Type().Underlying().(*types.Map)
		kd, kv := g.mapKeys(mt)
		g.set(fc.cur, kd, fmt.Sprintf("(store %s %s ((as const (Array %s Bool)) false))", g.get(fc.cur, kd), r, g.sortOf(mt.Key())))
		_ = kv
		fc.setVal(x, r)
	case *ssa.MakeChan:
		g.markAlloc(x.Type())
		r := fc.newRef()
		fc.setVal(x, r)
	case *ssa.MakeClosure:
		r := fc.newRef()
		fc.setVal(x, r)
		ci := &closureInfo{fn: x.Fn.(*ssa.Function)}
		for i, b := range x.Bindings {
			ci.bindings = append(ci.bindings, fc.term(b))
			ci.cells = append(ci.cells, b)
			// a captured write-once variable is the same value inside the closure
			if cv, ok := g.constVal[b]; ok && i < len(ci.fn.FreeVars) {
				g.constVal[ci.fn.FreeVars[i]] = cv
				if cc, ok := g.constClosure[b]; ok {
					g.constClosure[ci.fn.FreeVars[i]] = cc
				}
			}
		}
		fc.closures[x] = ci
		// identity of the function value (immutable): which function, and for a bound method value its receiver
		g.declareFun("|$fnOf|", "(Int) Int")
		g.declareFun("|$fnRecv|", "(Int) Int")
		fc.assume(fmt.Sprintf("(= (|$fnOf| %s) %d)", r, g.funcID(ci.fn.String())), "closure identity")
		if len(ci.bindings) == 1 && strings.HasSuffix(ci.fn.Name(), "$bound") {
			fc.assume(fmt.Sprintf("(= (|$fnRecv| %s) %s)", r, ci.bindings[0].t), "bound method receiver")
		}
		// ownChannels(f): every captured value through which the closure could reach a channel was made by the
		// function that builds the closure (decided on the SSA form; see closureOwnsItsChannels)
		if closureOwnsItsChannels(x) {
			g.declareFun("|$ownChans|", "(Int) Bool")
			fc.assume(fmt.Sprintf("(|$ownChans| %s)", r), "closure captures only channels made by its creator")
		}
	case *ssa.MakeInterface:
		fc.makeInterface(x)
	case *ssa.ChangeInterface:
		fc.setVal(x, fc.term(x.X).t)
	case *ssa.ChangeType:
		fc.setVal(x, fc.term(x.X).t)
		if ci, ok := fc.closures[x.X]; ok {
			fc.closures[x] = ci
		}
	case *ssa.Convert:
		fc.convert(x)
	case *ssa.TypeAssert:
		fc.typeAssert(x)
	case *ssa.Extract:
		tv := fc.term(x.Tuple)
		if x.Index < len(tv.tuple) {
			fc.vals[x] = Val{t: tv.tuple[x.Index].t, ty: x.Type()}
			// keep closure/loc identity
		} else {
			fc.freshVal(x, "extract")
		}
	case *ssa.Lookup:
		fc.lookup(x)
	case *ssa.MapUpdate:
		m := fc.term(x.Map)
		mt := x.Map.Type().Underlying().(*types.Map)
		kd, kv := g.mapKeys(mt)
		fc.safety("nil-map", posOf(ins), fmt.Sprintf("(not (= %s 0))", m.t))
		k := fc.term(x.Key).t
		v := fc.term(x.Value).t
		d := g.get(fc.cur, kd)
		vv := g.get(fc.cur, kv)
		g.set(fc.cur, kd, fmt.Sprintf("(store %s %s (store (select %s %s) %s true))", d, m.t, d, m.t, k))
		g.set(fc.cur, kv, fmt.Sprintf("(store %s %s (store (select %s %s) %s %s))", vv, m.t, vv, m.t, k, v))
	case *ssa.Range:
		fc.rangeInstr(x)
	case *ssa.Next:
		fc.nextInstr(x)
	case *ssa.Call:
		fc.call(x, &x.Call, x)
		// after(F, e): remember the state in which the first call of each callee returned (root function only)
		if fc.parent == nil {
			nm := ""
			if x.Call.IsInvoke() {
				nm = x.Call.Method.Name()
			} else if cal := x.Call.StaticCallee(); cal != nil {
				nm = cal.Name()
			}
			if nm != "" {
				if fc.afterCall == nil {
					fc.afterCall = map[string]*State{}
					fc.afterCallBlock = map[string]*ssa.BasicBlock{}
				}
				if _, ok := fc.afterCall[nm]; !ok {
					fc.afterCall[nm] = fc.cur.clone()
					fc.afterCallBlock[nm] = x.Block()
					if fc.afterCallReach == nil {
						fc.afterCallReach = map[string]string{}
					}
					fc.afterCallReach[nm] = fc.curReach
				}
			}
		}
	case *ssa.Send:
		fc.sendInstr(x)
	case *ssa.Select:
		fc.selectInstr(x)
	case *ssa.SliceToArrayPointer, *ssa.MultiConvert:
		fc.unsupported(ins, fmt.Sprintf("%T", ins))
	default:
		fc.unsupported(ins, fmt.Sprintf("%T", ins))
	}
}

func (fc *FnCtx) posStr(ins ssa.Instruction) string {
	p := fc.g.ld.fset.Position(posOf(ins))
	return fmt.Sprintf("%s:%d", shortFile(p.Filename), p.Line)
}

func (fc *FnCtx) nilCheck(p ssa.Value, ins ssa.Instruction) {
	// allocs and interior pointers are never nil
	switch p.(type) {
	case *ssa.Alloc, *ssa.FieldAddr, *ssa.IndexAddr, *ssa.Global, *ssa.FreeVar:
		return
	}
	v := fc.term(p)
	fc.safety("nil", posOf(ins), fmt.Sprintf("(not (= %s 0))", v.t))
}

func (fc *FnCtx) indexAddr(x *ssa.IndexAddr) {
	g := fc.g
	base := fc.term(x.X)
	idx := fc.term(x.Index)
	switch u := x.X.Type().Underlying().(type) {
	case *types.Slice:
		fc.safety("bounds", posOf(x), fmt.Sprintf("(and (<= 0 %s) (< %s (slen %s)))", idx.t, idx.t, base.t))
		fc.locs[x] = &Loc{kind: "elem", obj: fmt.Sprintf("(sarr %s)", base.t), idx: fmt.Sprintf("(|ix| (soff %s) %s)", base.t, idx.t), elem: u.Elem()}
		g.declareFun("|ea|", "(Int Int) Int")
		fc.defVal(x, fmt.Sprintf("(|ea| (sarr %s) (|ix| (soff %s) %s))", base.t, base.t, idx.t))
	case *types.Pointer: // pointer to array
		at := u.Elem().Underlying().(*types.Array)
		fc.nilCheck(x.X, x)
		fc.safety("bounds", posOf(x), fmt.Sprintf("(and (<= 0 %s) (< %s %d))", idx.t, idx.t, at.Len()))
		if bl, ok := fc.locs[x.X]; ok && bl.kind != "cell" {
			// array embedded by value in a struct / element
			nl := *bl
			nl.path = append(append([]pathStep{}, bl.path...), pathStep{arr: true, idx: idx.t})
			fc.locs[x] = &nl
		} else {
			fc.locs[x] = &Loc{kind: "elem", obj: base.t, idx: idx.t, elem: at.Elem()}
		}
		g.declareFun("|ea|", "(Int Int) Int")
		fc.defVal(x, fmt.Sprintf("(|ea| %s %s)", base.t, idx.t))
	default:
		fc.unsupported(x, "indexaddr")
	}
}

func (fc *FnCtx) sliceOp(x *ssa.Slice) {
	g := fc.g
	base := fc.term(x.X)
	lo := "0"
	if x.Low != nil {
		lo = fc.term(x.Low).t
	}
	switch u := x.X.Type().Underlying().(type) {
	case *types.Slice:
		hi := fmt.Sprintf("(slen %s)", base.t)
		if x.High != nil {
			hi = fc.term(x.High).t
		}
		fc.safety("bounds", posOf(x), fmt.Sprintf("(and (<= 0 %s) (<= %s %s) (<= %s (scap %s)))", lo, lo, hi, hi, base.t))
		capT := fmt.Sprintf("(- (scap %s) %s)", base.t, lo)
		if x.Max != nil {
			capT = fmt.Sprintf("(- %s %s)", fc.term(x.Max).t, lo)
		}
		fc.defVal(x, fmt.Sprintf("(mkslice (sarr %s) (+ (soff %s) %s) (- %s %s) %s)", base.t, base.t, lo, hi, lo, capT))
	case *types.Pointer:
		at := u.Elem().Underlying().(*types.Array)
		hi := fmt.Sprint(at.Len())
		if x.High != nil {
			hi = fc.term(x.High).t
		}
		fc.safety("bounds", posOf(x), fmt.Sprintf("(and (<= 0 %s) (<= %s %s) (<= %s %d))", lo, lo, hi, hi, at.Len()))
		fc.defVal(x, fmt.Sprintf("(mkslice %s %s (- %s %s) (- %d %s))", base.t, lo, hi, lo, at.Len(), lo))
	case *types.Basic: // string
		hi := fmt.Sprintf("(str.len %s)", base.t)
		if x.High != nil {
			hi = fc.term(x.High).t
		}
		fc.safety("bounds", posOf(x), fmt.Sprintf("(and (<= 0 %s) (<= %s %s) (<= %s (str.len %s)))", lo, lo, hi, hi, base.t))
		fc.defVal(x, fmt.Sprintf("(str.substr %s %s (- %s %s))", base.t, lo, hi, lo))
	default:
		_ = g
		fc.unsupported(x, "slice")
	}
}

func (fc *FnCtx) unop(x *ssa.UnOp) {
	g := fc.g
	switch x.Op {
	case token.NOT:
		fc.defVal(x, fmt.Sprintf("(not %s)", fc.term(x.X).t))
	case token.SUB:
		v := fc.term(x.X)
		if g.sortOf(x.Type()) == "Real" {
			fc.defVal(x, fmt.Sprintf("(- %s)", v.t))
		} else {
			fc.defVal(x, wrapInt(x.Type(), fmt.Sprintf("(- %s)", v.t)))
		}
	case token.MUL: // load
		if cv, ok := g.constVal[x.X]; ok {
			// write-once local variable (possibly captured by closures): its value, not a heap read
			fc.vals[x] = Val{t: cv.t, ty: x.Type(), tuple: cv.tuple}
			if ci, ok := fc.closures[x.X]; ok {
				fc.closures[x] = ci
			} else if ci, ok := g.constClosure[x.X]; ok {
				fc.closures[x] = ci
			}
			return
		}
		if gl, ok := x.X.(*ssa.Global); ok {
			if c, ok := g.ld.constGlobal(gl); ok {
				g.note("assumed: package variable " + shortPkg(gl.String()) + " keeps its initial constant value (no function of the loaded packages assigns it)")
				fc.vals[x] = Val{t: fc.constVal(c).t, ty: x.Type()}
				return
			}
		}
		l := fc.locOf(x.X)
		fc.nilCheck(x.X, x)
		if l.kind == "field" {
			fc.lockHeld(l.T, l.fld, l.obj, false, x)
		}
		t := fc.loadLoc(l, x.Type())
		v := fc.defVal(x, t)
		_ = v
		// values read from memory are well-formed
		if rc := g.sorts.rangeConstraint(x.Type(), fc.vals[x].t); rc != "" {
			fc.assume(rc, "range")
		}
		fc.boundRefs(x.Type(), fc.vals[x].t)
		if gl, ok := x.X.(*ssa.Global); ok && g.ld.nonNilGlobal(gl) && g.sortOf(x.Type()) == "Iface" {
			g.note("assumed: package variable " + shortPkg(gl.String()) + " keeps the non-nil error it is initialised with (no function of the loaded packages assigns it)")
			fc.assume(fmt.Sprintf("(not (= (itag %s) 0))", fc.vals[x].t), "non-nil package error")
		} else if gl, ok := x.X.(*ssa.Global); ok && g.ld.nonNilGlobal(gl) {
			if _, isPtr := x.Type().Underlying().(*types.Pointer); isPtr {
				g.note("assumed: package variable " + shortPkg(gl.String()) + " keeps the object it is initialised with (no function of the loaded packages assigns it)")
				fc.assume(fmt.Sprintf("(not (= %s 0))", fc.vals[x].t), "non-nil package object")
			}
		}
		// closure identity through cells is lost
	case token.ARROW:
		// channel receive: arbitrary value
		g.note("channel receive yields an arbitrary value")
		if x.CommaOk {
			v := g.fresh(fc.name(x)+".v", g.sortOf(x.Type().(*types.Tuple).At(0).Type()))
			ok := g.fresh(fc.name(x)+".ok", "Bool")
			fc.vals[x] = Val{ty: x.Type(), tuple: []Val{{t: v, ty: x.Type().(*types.Tuple).At(0).Type()}, {t: ok, ty: types.Typ[types.Bool]}}}
			if rc := g.sorts.rangeConstraint(x.Type().(*types.Tuple).At(0).Type(), v); rc != "" {
				fc.assume(rc, "range")
			}
		} else {
			fc.freshVal(x, "recv")
		}
		// a receive is a synchronisation point: other goroutines may have run
		fc.syncPoint("chan receive")
	case token.XOR:
		g.declareFun("|bitnot|", "(Int) Int")
		fc.defVal(x, wrapInt(x.Type(), fmt.Sprintf("(|bitnot| %s)", fc.term(x.X).t)))
	default:
		fc.unsupported(x, "unop "+x.Op.String())
	}
}

// syncPoint: at blocking operations other goroutines can run; state not protected by a held
// lock may change.  We are sequential per goroutine: no effect, recorded as an assumption.
func (fc *FnCtx) syncPoint(what string) {
	fc.g.note("interference at " + what + " not modelled (single-goroutine reasoning)")
}

func (fc *FnCtx) binop(x *ssa.BinOp) {
	g := fc.g
	a, b := fc.term(x.X), fc.term(x.Y)
	xt := x.X.Type()
	srt := g.sortOf(xt)
	isStr := srt == "String"
	isReal := srt == "Real"
	switch x.Op {
	case token.ADD:
		if isStr {
			fc.defVal(x, fmt.Sprintf("(str.++ %s %s)", a.t, b.t))
		} else if isReal {
			fc.defVal(x, fmt.Sprintf("(+ %s %s)", a.t, b.t))
		} else {
			fc.defVal(x, wrapInt(x.Type(), fmt.Sprintf("(+ %s %s)", a.t, b.t)))
		}
	case token.SUB:
		if isReal {
			fc.defVal(x, fmt.Sprintf("(- %s %s)", a.t, b.t))
		} else {
			fc.defVal(x, wrapInt(x.Type(), fmt.Sprintf("(- %s %s)", a.t, b.t)))
		}
	case token.MUL:
		if isReal {
			fc.defVal(x, fmt.Sprintf("(* %s %s)", a.t, b.t))
		} else {
			fc.defVal(x, wrapInt(x.Type(), fmt.Sprintf("(* %s %s)", a.t, b.t)))
		}
	case token.QUO:
		if isReal {
			fc.defVal(x, fmt.Sprintf("(/ %s %s)", a.t, b.t))
			return
		}
		fc.safety("div0", posOf(x), fmt.Sprintf("(not (= %s 0))", b.t))
		fc.defVal(x, wrapInt(x.Type(), goDiv(a.t, b.t)))
	case token.REM:
		fc.safety("div0", posOf(x), fmt.Sprintf("(not (= %s 0))", b.t))
		fc.defVal(x, goRem(a.t, b.t))
	case token.EQL:
		fc.defVal(x, fc.eqTerm(xt, a.t, b.t))
	case token.NEQ:
		fc.defVal(x, fmt.Sprintf("(not %s)", fc.eqTerm(xt, a.t, b.t)))
	case token.LSS, token.LEQ, token.GTR, token.GEQ:
		op := map[token.Token]string{token.LSS: "<", token.LEQ: "<=", token.GTR: ">", token.GEQ: ">="}[x.Op]
		if isStr {
			switch x.Op {
			case token.LSS:
				fc.defVal(x, fmt.Sprintf("(str.< %s %s)", a.t, b.t))
			case token.LEQ:
				fc.defVal(x, fmt.Sprintf("(str.<= %s %s)", a.t, b.t))
			case token.GTR:
				fc.defVal(x, fmt.Sprintf("(str.< %s %s)", b.t, a.t))
			case token.GEQ:
				fc.defVal(x, fmt.Sprintf("(str.<= %s %s)", b.t, a.t))
			}
		} else {
			fc.defVal(x, fmt.Sprintf("(%s %s %s)", op, a.t, b.t))
		}
	case token.SHL, token.SHR:
		if c, ok := x.Y.(*ssa.Const); ok && c.Value != nil {
			n, _ := strconv.Atoi(c.Value.ExactString())
			p := new(bigInt).Lsh(bigOne, uint(n)).String()
			if x.Op == token.SHL {
				fc.defVal(x, wrapInt(x.Type(), fmt.Sprintf("(* %s %s)", a.t, p)))
			} else {
				fc.defVal(x, fmt.Sprintf("(div %s %s)", a.t, p))
			}
			return
		}
		g.declareFun("|shift|", "(Int Int Bool) Int")
		fc.defVal(x, wrapInt(x.Type(), fmt.Sprintf("(|shift| %s %s %v)", a.t, b.t, x.Op == token.SHL)))
	case token.AND, token.OR, token.XOR, token.AND_NOT:
		if g.sortOf(x.Type()) == "Bool" {
			op := map[token.Token]string{token.AND: "and", token.OR: "or", token.XOR: "xor"}[x.Op]
			fc.defVal(x, fmt.Sprintf("(%s %s %s)", op, a.t, b.t))
			return
		}
		name := "|bit" + x.Op.String() + "|"
		name = "|bitop" + fmt.Sprint(int(x.Op)) + "|"
		g.declareFun(name, "(Int Int) Int")
		fc.defVal(x, wrapInt(x.Type(), fmt.Sprintf("(%s %s %s)", name, a.t, b.t)))
	default:
		fc.unsupported(x, "binop "+x.Op.String())
	}
}

func goDiv(a, b string) string {
	// Go truncates toward zero; SMT div is floor for positive divisor, euclidean in general.
	return fmt.Sprintf("(ite (>= %s 0) (div %s %s) (- (div (- %s) %s)))", a, a, b, a, b)
}

func goRem(a, b string) string {
	return fmt.Sprintf("(- %s (* %s %s))", a, b, goDiv(a, b))
}

func (fc *FnCtx) eqTerm(t types.Type, a, b string) string {
	switch t.Underlying().(type) {
	case *types.Slice:
		// only comparison with nil is legal
		if a == "nilslice" || a == "(mkslice 0 0 0 0)" {
			return fmt.Sprintf("(= (sarr %s) 0)", b)
		}
		return fmt.Sprintf("(= (sarr %s) 0)", a)
	case *types.Interface:
		if a == "niliface" || a == "(mkiface 0 0)" {
			return fmt.Sprintf("(= (itag %s) 0)", b)
		}
		if b == "niliface" || b == "(mkiface 0 0)" {
			return fmt.Sprintf("(= (itag %s) 0)", a)
		}
	}
	return fmt.Sprintf("(= %s %s)", a, b)
}

func (fc *FnCtx) convert(x *ssa.Convert) {
	g := fc.g
	v := fc.term(x.X)
	from, to := g.sortOf(x.X.Type()), g.sortOf(x.Type())
	switch {
	case from == "Int" && to == "Int":
		fc.defVal(x, wrapInt(x.Type(), v.t))
	case from == to && from != "Slice":
		fc.setVal(x, v.t)
	case from == "String" && to == "Slice":
		// []byte(s): fresh backing array with the bytes of s
		r := fc.newRef()
		et := x.Type().Underlying().(*types.Slice).Elem()
		k := g.arrKey(et)
		arr := g.fresh("bytes", "(Array Int Int)")
		g.set(fc.cur, k, fmt.Sprintf("(store %s %s %s)", g.get(fc.cur, k), r, arr))
		g.declareFun("|bytes2str|", "((Array Int Int) Int) String")
		fc.defVal(x, fmt.Sprintf("(mkslice %s 0 (str.len %s) (str.len %s))", r, v.t, v.t))
		fc.assume(fmt.Sprintf("(= (|bytes2str| %s (str.len %s)) %s)", arr, v.t, v.t), "[]byte(s) round trip")
	case from == "Slice" && to == "String":
		et := x.X.Type().Underlying().(*types.Slice).Elem()
		k := g.arrKey(et)
		g.declareFun("|bytes2str|", "((Array Int Int) Int) String")
		if v2 := fmt.Sprintf("(soff %s)", v.t); true {
			_ = v2
		}
		nv := fc.freshVal(x, "string(bytes)")
		fc.assume(fmt.Sprintf("(= (str.len %s) (slen %s))", nv.t, v.t), "len(string(b))")
		fc.assume(fmt.Sprintf("(=> (= (soff %s) 0) (= %s (|bytes2str| (select %s (sarr %s)) (slen %s))))", v.t, nv.t, g.get(fc.cur, k), v.t, v.t), "string(b)")
	case from == "Int" && to == "Real":
		fc.defVal(x, fmt.Sprintf("(to_real %s)", v.t))
	case from == "Real" && to == "Int":
		nv := fc.freshVal(x, "float->int")
		_ = nv
	case from == "Int" && to == "String":
		g.declareFun("|rune2str|", "(Int) String")
		fc.defVal(x, fmt.Sprintf("(|rune2str| %s)", v.t))
	default:
		fc.freshVal(x, "convert")
		g.note("conversion abstracted: " + x.X.Type().String() + " -> " + x.Type().String())
	}
}

func (fc *FnCtx) box(t types.Type, v string) string {
	g := fc.g
	if isPointerLike(t) {
		return v
	}
	srt := g.sortOf(t)
	k := typeKey(t)
	bn, un := "|box!"+k+"|", "|unbox!"+k+"|"
	g.declareFun(bn, "("+srt+") Int")
	g.declareFun(un, "(Int) "+srt)
	return fmt.Sprintf("(%s %s)", bn, v)
}

func (fc *FnCtx) unboxT(t types.Type, iv string) string {
	g := fc.g
	if isPointerLike(t) {
		return iv
	}
	srt := g.sortOf(t)
	k := typeKey(t)
	bn, un := "|box!"+k+"|", "|unbox!"+k+"|"
	g.declareFun(bn, "("+srt+") Int")
	g.declareFun(un, "(Int) "+srt)
	return fmt.Sprintf("(%s %s)", un, iv)
}

func (fc *FnCtx) makeInterface(x *ssa.MakeInterface) {
	g := fc.g
	v := fc.term(x.X)
	t := x.X.Type()
	id := g.sorts.typeID(t)
	b := fc.box(t, v.t)
	fc.defVal(x, fmt.Sprintf("(mkiface %d %s)", id, b))
	if !isPointerLike(t) {
		fc.assume(fmt.Sprintf("(= %s %s)", fc.unboxT(t, b), v.t), "unbox(box(v)) = v")
	}
}

func (fc *FnCtx) typeAssert(x *ssa.TypeAssert) {
	g := fc.g
	v := fc.term(x.X)
	at := x.AssertedType
	var okT, valT string
	if _, isIface := at.Underlying().(*types.Interface); isIface {
		// interface-to-interface: succeeds for non-nil values whose dynamic type implements it
		g.declareFun("|implements|", "(Int Int) Bool")
		id := g.sorts.typeID(at)
		okT = fmt.Sprintf("(and (not (= (itag %s) 0)) (|implements| (itag %s) %d))", v.t, v.t, id)
		// what is known statically: the message types of the universe and every concrete type already given a
		// tag either implement the interface or do not
		g.msgUniverse()
		if it, ok := at.Underlying().(*types.Interface); ok {
			var ids []int
			for tid := range g.sorts.typeOf {
				ids = append(ids, tid)
			}
			sort.Ints(ids)
			for _, tid := range ids {
				T := g.sorts.typeOf[tid]
				if _, isI := T.Underlying().(*types.Interface); isI {
					continue
				}
				key := fmt.Sprintf("impl|%d|%d", tid, id)
				if g.declared[key] {
					continue
				}
				g.declared[key] = true
				if types.Implements(T, it) {
					g.emit(fmt.Sprintf("(assert (|implements| %d %d))", tid, id))
				} else {
					g.emit(fmt.Sprintf("(assert (not (|implements| %d %d)))", tid, id))
				}
			}
		}
		valT = v.t
	} else {
		id := g.sorts.typeID(at)
		okT = fmt.Sprintf("(= (itag %s) %d)", v.t, id)
		valT = fc.unboxT(at, fmt.Sprintf("(ival %s)", v.t))
	}
	if isPointerLike(at) {
		// a pointer held in an interface value refers to an already allocated object
		fc.assume(fmt.Sprintf("(=> %s (<= (ival %s) %s))", okT, v.t, g.get(fc.cur, "$alloc")), "allocated")
	}
	if x.CommaOk {
		okN := g.def(fc.name(x)+".ok", "Bool", okT)
		zero := g.sorts.zero(at)
		valN := g.def(fc.name(x)+".v", g.sortOf(at), fmt.Sprintf("(ite %s %s %s)", okN, valT, zero))
		fc.vals[x] = Val{ty: x.Type(), tuple: []Val{{t: valN, ty: at}, {t: okN, ty: types.Typ[types.Bool]}}}
	} else {
		fc.safety("typeassert", posOf(x), okT)
		fc.defVal(x, valT)
		if rc := g.sorts.rangeConstraint(at, fc.vals[x].t); rc != "" {
			fc.assume(rc, "range")
		}
	}
}

func (fc *FnCtx) lookup(x *ssa.Lookup) {
	g := fc.g
	m := fc.term(x.X)
	k := fc.term(x.Index)
	switch u := x.X.Type().Underlying().(type) {
	case *types.Map:
		kd, kv := g.mapKeys(u)
		in := fmt.Sprintf("(select (select %s %s) %s)", g.get(fc.cur, kd), m.t, k.t)
		inN := g.def(fc.name(x)+".ok", "Bool", fmt.Sprintf("(and (not (= %s 0)) %s)", m.t, in))
		val := fmt.Sprintf("(ite %s (select (select %s %s) %s) %s)", inN, g.get(fc.cur, kv), m.t, k.t, g.sorts.zero(u.Elem()))
		valN := g.def(fc.name(x)+".v", g.sortOf(u.Elem()), val)
		if rc := g.sorts.rangeConstraint(u.Elem(), valN); rc != "" {
			fc.assume(rc, "range")
		}
		fc.boundRefs(u.Elem(), valN)
		if x.CommaOk {
			fc.vals[x] = Val{ty: x.Type(), tuple: []Val{{t: valN, ty: u.Elem()}, {t: inN, ty: types.Typ[types.Bool]}}}
		} else {
			fc.setVal(x, valN)
		}
	case *types.Basic:
		fc.safety("bounds", posOf(x), fmt.Sprintf("(and (<= 0 %s) (< %s (str.len %s)))", k.t, k.t, m.t))
		fc.defVal(x, fmt.Sprintf("(str.to_code (str.at %s %s))", m.t, k.t))
	default:
		fc.unsupported(x, "lookup")
	}
}

func (fc *FnCtx) rangeInstr(x *ssa.Range) {
	g := fc.g
	v := fc.term(x.X)
	fc.setVal(x, "0")
	switch u := x.X.Type().Underlying().(type) {
	case *types.Map:
		ks := g.sortOf(u.Key())
		key := fmt.Sprintf("V|%s%s", fc.prefix, x.Name())
		g.regKey(key, "(Array "+ks+" Bool)", "visited")
		g.set(fc.cur, key, fmt.Sprintf("((as const (Array %s Bool)) false)", ks))
		kd, _ := g.mapKeys(u)
		dom := g.def("rangedom", "(Array "+ks+" Bool)", fmt.Sprintf("(ite (= %s 0) ((as const (Array %s Bool)) false) (select %s %s))", v.t, ks, g.get(fc.cur, kd), v.t))
		nkey := fmt.Sprintf("N|%s%s", fc.prefix, x.Name())
		g.regKey(nkey, "Int", "visited")
		g.set(fc.cur, nkey, "0")
		fc.iters[x] = &iterInfo{isMap: true, m: v, visKey: key, mt: u, domAtStart: dom, cntKey: nkey}
	default:
		fc.iters[x] = &iterInfo{str: true}
	}
}

func (fc *FnCtx) nextInstr(x *ssa.Next) {
	g := fc.g
	it := fc.iters[x.Iter]
	tt := x.Type().(*types.Tuple)
	if it == nil || !it.isMap {
		ok := g.fresh(fc.name(x)+".ok", "Bool")
		k := g.fresh(fc.name(x)+".k", g.sortOf(tt.At(1).Type()))
		v := g.fresh(fc.name(x)+".v", g.sortOf(tt.At(2).Type()))
		fc.vals[x] = Val{ty: tt, tuple: []Val{{t: ok, ty: tt.At(0).Type()}, {t: k, ty: tt.At(1).Type()}, {t: v, ty: tt.At(2).Type()}}}
		g.note("range over string abstracted")
		return
	}
	ks := g.sortOf(it.mt.Key())
	_, kv := g.mapKeys(it.mt)
	vis := g.get(fc.cur, it.visKey)
	ok := g.fresh(fc.name(x)+".ok", "Bool")
	k := g.fresh(fc.name(x)+".k", ks)
	dom := it.domAtStart
	// ok => k in dom \ visited ; !ok => visited == dom
	fc.assume(fmt.Sprintf("(=> %s (and (select %s %s) (not (select %s %s))))", ok, dom, k, vis, k), "map iteration yields an unvisited key")
	fc.assume(fmt.Sprintf("(=> (not %s) (= %s %s))", ok, vis, dom), "map iteration ends when every key was visited")
	val := g.def(fc.name(x)+".v", g.sortOf(it.mt.Elem()), fmt.Sprintf("(select (select %s %s) %s)", g.get(fc.cur, kv), it.m.t, k))
	if rc := g.sorts.rangeConstraint(it.mt.Elem(), val); rc != "" {
		fc.assume(rc, "range")
	}
	if rc := g.sorts.rangeConstraint(it.mt.Key(), k); rc != "" {
		fc.assume(rc, "range")
	}
	fc.boundRefs(it.mt.Elem(), val)
	// number of keys visited so far; a Go map holds fewer than 2^56 entries (address space)
	nOld := g.get(fc.cur, it.cntKey)
	fc.assume(fmt.Sprintf("(and (<= 0 %s) (< %s 72057594037927936))", nOld, nOld), "map iteration count bounded by the address space")
	g.set(fc.cur, it.cntKey, fmt.Sprintf("(+ %s 1)", nOld))
	g.trusted["a map iteration visits fewer than 2^56 keys (maps live in a 64-bit address space)"] = true
	// (when !ok the loop is left and the visited set is not read again)
	g.set(fc.cur, it.visKey, fmt.Sprintf("(store %s %s true)", vis, k))
	fc.vals[x] = Val{ty: tt, tuple: []Val{{t: ok, ty: tt.At(0).Type()}, {t: k, ty: it.mt.Key()}, {t: val, ty: it.mt.Elem()}}}
}

func (fc *FnCtx) sendInstr(x *ssa.Send) {
	fc.g.note("channel send: ghost events only where a contract names the channel")
	fc.chanEvent(x.Chan, fc.term(x.X), x)
}

func (fc *FnCtx) selectInstr(x *ssa.Select) {
	g := fc.g
	tt := x.Type().(*types.Tuple)
	var tv []Val
	idx := g.fresh(fc.name(x)+".idx", "Int")
	lo := 0
	if !x.Blocking {
		lo = -1
	}
	fc.assume(fmt.Sprintf("(and (<= %d %s) (< %s %d))", lo, idx, idx, len(x.States)), "select index")
	tv = append(tv, Val{t: idx, ty: tt.At(0).Type()})
	tv = append(tv, Val{t: g.fresh(fc.name(x)+".ok", "Bool"), ty: tt.At(1).Type()})
	for i := 2; i < tt.Len(); i++ {
		n := g.fresh(fc.name(x)+".r", g.sortOf(tt.At(i).Type()))
		if rc := g.sorts.rangeConstraint(tt.At(i).Type(), n); rc != "" {
			fc.assume(rc, "range")
		}
		tv = append(tv, Val{t: n, ty: tt.At(i).Type()})
	}
	fc.vals[x] = Val{ty: tt, tuple: tv}
	// ghost receive counters
	for k, st := range x.States {
		if st.Dir != types.RecvOnly {
			continue
		}
		if owner, gname, ok := fc.chanOwner(st.Chan); ok {
			gv := g.cs.Ghosts[gname]
			if gv == nil {
				cxFail("chancount: unknown ghost variable %s", gname)
			}
			env := fc.envAt(fc.cur, nil)
			cur := env.ghostVal(gv)
			g.set(fc.cur, "G|"+gname, fmt.Sprintf("(ite (= %s %d) (store %s %s (+ (select %s %s) 1)) %s)", idx, k, cur.t, owner, cur.t, owner, cur.t))
		}
	}
	// ghost events of send arms: the value is appended to the channel's ghost sequence exactly when that arm is taken
	for k, st := range x.States {
		if st.Dir != types.SendOnly {
			continue
		}
		gname, ok := fc.chanGhostOf(st.Chan)
		if !ok {
			continue
		}
		env := fc.envAt(fc.cur, nil)
		before := env.ghostVal(g.cs.Ghosts[gname]).t
		fc.chanEvent(st.Chan, fc.term(st.Send), x)
		after := g.get(fc.cur, "G|"+gname)
		g.set(fc.cur, "G|"+gname, fmt.Sprintf("(ite (= %s %d) %s %s)", idx, k, after, before))
	}
	g.note("select: arbitrary ready case, received values arbitrary")
	fc.syncPoint("select")
}

// chanGhostOf: the ghost sequence declared (changhost) for the struct field the channel operand was loaded from.
func (fc *FnCtx) chanGhostOf(ch ssa.Value) (string, bool) {
	ld, ok := ch.(*ssa.UnOp)
	if !ok {
		return "", false
	}
	fa, ok := ld.X.(*ssa.FieldAddr)
	if !ok {
		return "", false
	}
	T := fa.X.Type().Underlying().(*types.Pointer).Elem()
	n, ok := T.(*types.Named)
	if !ok || n.Obj().Pkg() == nil {
		return "", false
	}
	st := T.Underlying().(*types.Struct)
	gname, ok := fc.g.cs.ChanGhosts[n.Obj().Pkg().Path()+"::"+n.Obj().Name()+"."+st.Field(fa.Field).Name()]
	if !ok {
		return "", false
	}
	if _, ok := fc.g.cs.Ghosts[gname]; !ok {
		cxFail("changhost: unknown ghost variable %s", gname)
	}
	return gname, true
}

// chanEvent: a send on a channel that was loaded from a field declared `changhost` appends the
// sent value to the ghost sequence.
func (fc *FnCtx) chanEvent(ch ssa.Value, v Val, ins ssa.Instruction) {
	g := fc.g
	ld, ok := ch.(*ssa.UnOp)
	if !ok {
		return
	}
	fa, ok := ld.X.(*ssa.FieldAddr)
	if !ok {
		return
	}
	T := fa.X.Type().Underlying().(*types.Pointer).Elem()
	n, ok := T.(*types.Named)
	if !ok || n.Obj().Pkg() == nil {
		return
	}
	st := T.Underlying().(*types.Struct)
	gname, ok := g.cs.ChanGhosts[n.Obj().Pkg().Path()+"::"+n.Obj().Name()+"."+st.Field(fa.Field).Name()]
	if !ok {
		return
	}
	gv, ok := g.cs.Ghosts[gname]
	if !ok {
		cxFail("changhost: unknown ghost variable %s", gname)
	}
	env := fc.envAt(fc.cur, nil)
	cur := env.ghostVal(gv)
	mk, ln, ar := seqFns(cur.gs)
	g.set(fc.cur, "G|"+gname, fmt.Sprintf("(%s (+ (%s %s) 1) (store (%s %s) (%s %s) %s))", mk, ln, cur.t, ar, cur.t, ln, cur.t, v.t))
}

// chanOwner: the channel operand was loaded from field f of object o and Type.f is declared `chancount`.
func (fc *FnCtx) chanOwner(ch ssa.Value) (string, string, bool) {
	ld, ok := ch.(*ssa.UnOp)
	if !ok {
		return "", "", false
	}
	fa, ok := ld.X.(*ssa.FieldAddr)
	if !ok {
		return "", "", false
	}
	T := fa.X.Type().Underlying().(*types.Pointer).Elem()
	n, ok := T.(*types.Named)
	if !ok || n.Obj().Pkg() == nil {
		return "", "", false
	}
	st := T.Underlying().(*types.Struct)
	gname, ok := fc.g.cs.ChanCounts[n.Obj().Pkg().Path()+"::"+n.Obj().Name()+"."+st.Field(fa.Field).Name()]
	if !ok {
		return "", "", false
	}
	return fc.term(fa.X).t, gname, true
}

// closureOwnsItsChannels: every binding of the closure whose type can reach a channel (a channel, or a pointer / struct
// with a channel-typed field within three levels) is a variable of the creating function (an Alloc) that is only ever
// assigned channels / objects made by that same function, or such a freshly made object itself.
func closureOwnsItsChannels(mc *ssa.MakeClosure) bool {
	fn := mc.Parent()
	var madeHere func(v ssa.Value, depth int) bool
	madeHere = func(v ssa.Value, depth int) bool {
		if depth > 3 {
			return false
		}
		switch y := v.(type) {
		case *ssa.MakeChan:
			return y.Parent() == fn
		case *ssa.Const:
			return true
		case *ssa.Alloc:
			if y.Parent() != fn {
				return false
			}
			for _, ref := range *y.Referrers() {
				switch u := ref.(type) {
				case *ssa.Store:
					if u.Addr == y {
						if !madeHere(u.Val, depth+1) {
							return false
						}
					} else {
						return false // the variable's address escapes into the heap
					}
				case *ssa.UnOp, *ssa.DebugRef, *ssa.MakeClosure:
				default:
					return false
				}
			}
			return true
		}
		return false
	}
	for _, b := range mc.Bindings {
		if !typeReachesChan(b.Type(), 0) {
			continue
		}
		if !madeHere(b, 0) {
			return false
		}
	}
	return true
}

func typeReachesChan(t types.Type, depth int) bool {
	if depth > 4 {
		return false
	}
	switch u := t.Underlying().(type) {
	case *types.Chan:
		return true
	case *types.Pointer:
		return typeReachesChan(u.Elem(), depth+1)
	case *types.Struct:
		for i := 0; i < u.NumFields(); i++ {
			if typeReachesChan(u.Field(i).Type(), depth+1) {
				return true
			}
		}
	case *types.Slice:
		return typeReachesChan(u.Elem(), depth+1)
	case *types.Map:
		return typeReachesChan(u.Elem(), depth+1)
	case *types.Interface, *types.Signature:
		return depth > 0 // an opaque value inside a captured object may hide a channel; a captured func/interface variable itself is left to its own contract
	}
	return false
}
