package main

// Private state (`private T.f ...` clause of a function contract).
//
// Some state is written by a handful of functions only: the per-channel clock (unexported struct tsInfo, the
// tsInfo map of the ts manager) is touched by the methods of tsManager and by nothing else.  A function that
// declares such heap keys `private` keeps them across calls that have no contract, instead of losing them to
// the default havoc:
//
//   * mechanically checked on every run: a static callee that can reach (through static calls and closures in
//     the loaded packages) a function that stores to one of the keys is NOT covered - it havocs as usual;
//   * assumed, and listed in the evidence: calls through interfaces, function values and into other modules
//     (target client, callbacks, retry, logging, ...) do not re-enter the writers of the private state.
//
// Stores, inlined bodies and callee contracts act on the private keys exactly as on every other key.

import (
	"fmt"
	"go/types"
	"os"
	"strings"

	"golang.org/x/tools/go/ssa"
	"golang.org/x/tools/go/ssa/ssautil"
)

// privateKeys resolves the root contract's private clause to heap keys.
func (fc *FnCtx) privateKeys() map[string]bool {
	root := fc
	for root.parent != nil {
		root = root.parent
	}
	if root.privKeysDone {
		return root.privKeys
	}
	root.privKeysDone = true
	if root.c == nil || len(root.c.Private) == 0 {
		return nil
	}
	env := root.envAt(root.cur, nil)
	targets, _ := env.resolveModifies(root.c.Private)
	root.privKeys = map[string]bool{}
	for _, t := range targets {
		root.privKeys[t.key] = true
	}
	fc.g.trusted["assumed (private state of "+root.c.Key+"): calls through interfaces, function values and into other modules do not change "+strings.Join(root.c.Private, " ")+"; static callees that can reach a writer of these keys are excluded mechanically"] = true
	return root.privKeys
}

// writerReach: functions of the loaded program from which a store to one of the keys is reachable.
func (g *Gen) writerReach(keys map[string]bool) map[*ssa.Function]bool {
	if g.wreach != nil {
		return g.wreach
	}
	g.wreach = map[*ssa.Function]bool{}
	if g.rootFn == nil {
		return g.wreach
	}
	all := ssautil.AllFunctions(g.rootFn.Prog)
	callers := map[*ssa.Function][]*ssa.Function{}
	var work []*ssa.Function
	why := map[*ssa.Function]string{}
	mark := func(f *ssa.Function) {
		if !g.wreach[f] {
			g.wreach[f] = true
			work = append(work, f)
			if why[f] == "" {
				why[f] = "writes"
			}
		}
	}
	for f := range all {
		for _, b := range f.Blocks {
			for _, ins := range b.Instrs {
				switch x := ins.(type) {
				case *ssa.Store:
					if fa, ok := x.Addr.(*ssa.FieldAddr); ok {
						if _, fresh := fa.X.(*ssa.Alloc); fresh {
							// a field of an object this very function allocated: no object that existed before is written
							break
						}
						T := fa.X.Type().Underlying().(*types.Pointer).Elem()
						if _, ok := T.Underlying().(*types.Struct); ok && keys[g.fieldKeyName(T, fa.Field)] {
							mark(f)
						}
					}
				case *ssa.MapUpdate:
					if _, fresh := x.Map.(*ssa.MakeMap); fresh {
						// a map this very function made: no map that existed before is written
						break
					}
					if mt, ok := x.Map.Type().Underlying().(*types.Map); ok {
						if keys["Md|"+typeKey(mt.Key())+"|"+typeKey(mt.Elem())] || keys["Mv|"+typeKey(mt.Key())+"|"+typeKey(mt.Elem())] {
							mark(f)
						}
					}
				case *ssa.MakeClosure:
					if c, ok := x.Fn.(*ssa.Function); ok {
						callers[c] = append(callers[c], f)
					}
				}
				// delete(m, k) and stores through element / cell pointers of private arrays
				if cc := callCommonOf(ins); cc != nil {
					if b, ok := cc.Value.(*ssa.Builtin); ok && b.Name() == "delete" && len(cc.Args) > 0 {
						if mt, ok := cc.Args[0].Type().Underlying().(*types.Map); ok {
							if keys["Md|"+typeKey(mt.Key())+"|"+typeKey(mt.Elem())] {
								mark(f)
							}
						}
					}
				}
				if st, ok := ins.(*ssa.Store); ok {
					if ia, ok := st.Addr.(*ssa.IndexAddr); ok {
						if sl, ok := ia.X.Type().Underlying().(*types.Slice); ok && keys["A|"+typeKey(sl.Elem())] {
							mark(f)
						}
					}
				}
				if cc := callCommonOf(ins); cc != nil {
					if sc := cc.StaticCallee(); sc != nil {
						callers[sc] = append(callers[sc], f)
						// mutators of typed map wrappers whose ghost content is private
						n := sc.String()
						if (strings.Contains(n, "typeutil.ConcurrentMap[") || strings.Contains(n, "core/util.Map[")) && sc.Signature.Recv() != nil {
							switch sc.Name() {
							case "Insert", "Store", "Remove", "Delete", "GetAndRemove", "GetOrInsert", "LoadOrStore":
								if rt, ok := sc.Signature.Recv().Type().(*types.Pointer); ok {
									if nt, ok := rt.Elem().(*types.Named); ok && nt.TypeArgs().Len() == 2 {
										kd := "UMd|" + typeKey(nt.TypeArgs().At(0)) + "|" + typeKey(nt.TypeArgs().At(1))
										if keys[kd] {
											mark(f)
										}
									}
								}
							}
						}
					}
				}
			}
		}
	}
	for len(work) > 0 {
		f := work[len(work)-1]
		work = work[:len(work)-1]
		for _, c := range callers[f] {
			if why[c] == "" {
				why[c] = "-> " + f.String()
			}
			mark(c)
		}
		if p := f.Parent(); p != nil {
			// a closure that writes: its creator hands it out
			if why[p] == "" {
				why[p] = "-> " + f.String()
			}
			mark(p)
		}
	}
	if fn := os.Getenv("GOVC_WHYWRITER"); fn != "" {
		for f := range g.wreach {
			if strings.Contains(f.String(), fn) {
				var ks []string
				for k := range keys {
					ks = append(ks, k)
				}
				cur, path := f, f.String()
				for i := 0; i < 12 && strings.HasPrefix(why[cur], "-> "); i++ {
					path += " " + why[cur]
					var nxt *ssa.Function
					for c := range g.wreach {
						if "-> "+c.String() == why[cur] {
							nxt = c
							break
						}
					}
					if nxt == nil {
						break
					}
					cur = nxt
				}
				fmt.Fprintf(os.Stderr, "WHYWRITER %v: %s\n", ks, path)
			}
		}
	}
	return g.wreach
}

func (g *Gen) fieldKeyName(T types.Type, idx int) string {
	st := T.Underlying().(*types.Struct)
	return "H|" + typeKey(T) + "|" + st.Field(idx).Name()
}

// privateSkip: the keys an unknown call at ins leaves alone - every private key except those for which the static
// callee can reach a writer.
func (fc *FnCtx) privateSkip(ins ssa.Instruction) map[string]bool {
	return fc.privateSkipFn(ins, nil)
}

// privateSkipFn: callee is the function known to run at ins (a resolved closure, say) when the call is not static.
func (fc *FnCtx) privateSkipFn(ins ssa.Instruction, callee *ssa.Function) map[string]bool {
	keys := fc.privateKeys()
	if len(keys) == 0 {
		return nil
	}
	sc := callee
	cc := callCommonOf(ins)
	if sc == nil && cc != nil && !cc.IsInvoke() {
		sc = cc.StaticCallee()
	}
	out := map[string]bool{}
	if sc == nil {
		if cc == nil || cc.IsInvoke() {
			return keys
		}
		// a function value of unknown identity: it may be any closure of the function under verification
		root := fc
		for root.parent != nil {
			root = root.parent
		}
		top := outermost(root.fn)
		for k := range keys {
			local := false
			for f := range fc.g.writerReachKey(k) {
				if f == root.fn {
					// the function under verification itself: a call of it from inside itself would be recursion,
					// which is outside the supported subset
					continue
				}
				if f.Parent() != nil && outermost(f) == top {
					local = true
					break
				}
			}
			if !local {
				out[k] = true
			}
		}
		return out
	}
	for k := range keys {
		if !fc.g.writerReachKey(k)[sc] {
			out[k] = true
		}
	}
	return out
}

func outermost(f *ssa.Function) *ssa.Function {
	for f != nil && f.Parent() != nil {
		f = f.Parent()
	}
	return f
}

// writerReachKey: writerReach for a single key (cached).
func (g *Gen) writerReachKey(k string) map[*ssa.Function]bool {
	if g.wreachKey == nil {
		g.wreachKey = map[string]map[*ssa.Function]bool{}
	}
	if r, ok := g.wreachKey[k]; ok {
		return r
	}
	saved := g.wreach
	g.wreach = nil
	ks := map[string]bool{k: true}
	// the domain and value arrays of a map type are written together
	if strings.HasPrefix(k, "Mv|") {
		ks["Md|"+k[3:]] = true
	}
	if strings.HasPrefix(k, "Md|") {
		ks["Mv|"+k[3:]] = true
	}
	if strings.HasPrefix(k, "UMv|") {
		ks["UMd|"+k[4:]] = true
	}
	r := g.writerReach(ks)
	g.wreachKey[k] = r
	g.wreach = saved
	return r
}
