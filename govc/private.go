package main

// Private state (`private T.f ...` clause of a function contract).
//
// Some state is written by a handful of functions only: the per-channel clock (unexported struct tsInfo, the
// tsInfo map of the ts manager) is touched by the methods of tsManager and by nothing else.  A function that
// declares such heap keys `private` keeps them across calls that have no contract, instead of losing them to
// the default havoc:
//
//   * mechanically checked on every run: a static callee that can reach (through static calls and closures in
//     the loaded packages) a function that stores to one of the keys is NOT covered - it havocs as usual;
//   * assumed, and listed in the evidence: calls through interfaces, function values and into other modules
//     (target client, callbacks, retry, logging, ...) do not re-enter the writers of the private state.
//
// Stores, inlined bodies and callee contracts act on the private keys exactly as on every other key.

import (
	"go/types"
	"strings"

	"golang.org/x/tools/go/ssa"
	"golang.org/x/tools/go/ssa/ssautil"
)

// privateKeys resolves the root contract's private clause to heap keys.
func (fc *FnCtx) privateKeys() map[string]bool {
	root := fc
	for root.parent != nil {
		root = root.parent
	}
	if root.privKeysDone {
		return root.privKeys
	}
	root.privKeysDone = true
	if root.c == nil || len(root.c.Private) == 0 {
		return nil
	}
	env := root.envAt(root.cur, nil)
	targets, _ := env.resolveModifies(root.c.Private)
	root.privKeys = map[string]bool{}
	for _, t := range targets {
		root.privKeys[t.key] = true
	}
	fc.g.trusted["assumed (private state of "+root.c.Key+"): calls through interfaces, function values and into other modules do not change "+strings.Join(root.c.Private, " ")+"; static callees that can reach a writer of these keys are excluded mechanically"] = true
	return root.privKeys
}

// writerReach: functions of the loaded program from which a store to one of the keys is reachable.
func (g *Gen) writerReach(keys map[string]bool) map[*ssa.Function]bool {
	if g.wreach != nil {
		return g.wreach
	}
	g.wreach = map[*ssa.Function]bool{}
	if g.rootFn == nil {
		return g.wreach
	}
	all := ssautil.AllFunctions(g.rootFn.Prog)
	callers := map[*ssa.Function][]*ssa.Function{}
	var work []*ssa.Function
	mark := func(f *ssa.Function) {
		if !g.wreach[f] {
			g.wreach[f] = true
			work = append(work, f)
		}
	}
	for f := range all {
		for _, b := range f.Blocks {
			for _, ins := range b.Instrs {
				switch x := ins.(type) {
				case *ssa.Store:
					if fa, ok := x.Addr.(*ssa.FieldAddr); ok {
						T := fa.X.Type().Underlying().(*types.Pointer).Elem()
						if _, ok := T.Underlying().(*types.Struct); ok && keys[g.fieldKeyName(T, fa.Field)] {
							mark(f)
						}
					}
				case *ssa.MapUpdate:
					if mt, ok := x.Map.Type().Underlying().(*types.Map); ok {
						if keys["Md|"+typeKey(mt.Key())+"|"+typeKey(mt.Elem())] || keys["Mv|"+typeKey(mt.Key())+"|"+typeKey(mt.Elem())] {
							mark(f)
						}
					}
				case *ssa.MakeClosure:
					if c, ok := x.Fn.(*ssa.Function); ok {
						callers[c] = append(callers[c], f)
					}
				}
				// delete(m, k) and stores through element / cell pointers of private arrays
				if cc := callCommonOf(ins); cc != nil {
					if b, ok := cc.Value.(*ssa.Builtin); ok && b.Name() == "delete" && len(cc.Args) > 0 {
						if mt, ok := cc.Args[0].Type().Underlying().(*types.Map); ok {
							if keys["Md|"+typeKey(mt.Key())+"|"+typeKey(mt.Elem())] {
								mark(f)
							}
						}
					}
				}
				if st, ok := ins.(*ssa.Store); ok {
					if ia, ok := st.Addr.(*ssa.IndexAddr); ok {
						if sl, ok := ia.X.Type().Underlying().(*types.Slice); ok && keys["A|"+typeKey(sl.Elem())] {
							mark(f)
						}
					}
				}
				if cc := callCommonOf(ins); cc != nil {
					if sc := cc.StaticCallee(); sc != nil {
						callers[sc] = append(callers[sc], f)
						// mutators of typed map wrappers whose ghost content is private
						n := sc.String()
						if (strings.Contains(n, "typeutil.ConcurrentMap[") || strings.Contains(n, "core/util.Map[")) && sc.Signature.Recv() != nil {
							switch sc.Name() {
							case "Insert", "Store", "Remove", "Delete", "GetAndRemove", "GetOrInsert", "LoadOrStore":
								if rt, ok := sc.Signature.Recv().Type().(*types.Pointer); ok {
									if nt, ok := rt.Elem().(*types.Named); ok && nt.TypeArgs().Len() == 2 {
										kd := "UMd|" + typeKey(nt.TypeArgs().At(0)) + "|" + typeKey(nt.TypeArgs().At(1))
										if keys[kd] {
											mark(f)
										}
									}
								}
							}
						}
					}
				}
			}
		}
	}
	for len(work) > 0 {
		f := work[len(work)-1]
		work = work[:len(work)-1]
		for _, c := range callers[f] {
			mark(c)
		}
		if p := f.Parent(); p != nil {
			// a closure that writes: its creator hands it out
			mark(p)
		}
	}
	return g.wreach
}

func (g *Gen) fieldKeyName(T types.Type, idx int) string {
	st := T.Underlying().(*types.Struct)
	return "H|" + typeKey(T) + "|" + st.Field(idx).Name()
}

// privateSkip: the keys an unknown call at ins leaves alone.
func (fc *FnCtx) privateSkip(ins ssa.Instruction) map[string]bool {
	keys := fc.privateKeys()
	if len(keys) == 0 {
		return nil
	}
	if cc := callCommonOf(ins); cc != nil && !cc.IsInvoke() {
		if sc := cc.StaticCallee(); sc != nil && fc.g.writerReach(keys)[sc] {
			return nil
		}
	}
	return keys
}
