package main

// Built-in models of a small list of standard-library / dependency functions
// (DESIGN.md 1.4 strings, 1.7 trusted contracts). Every model used is recorded in the
// trusted base of the evidence.

import (
	"fmt"
	"go/types"
	"strings"

	"golang.org/x/tools/go/ssa"
)

// varargStatic recovers the statically known elements of a variadic argument
// (`slice t[:]` of `new [N]T (varargs)` with one store per index).
func varargStatic(v ssa.Value) ([]ssa.Value, bool) {
	if c, ok := v.(*ssa.Const); ok && c.Value == nil {
		return nil, true
	}
	sl, ok := v.(*ssa.Slice)
	if !ok || sl.Low != nil || sl.High != nil {
		return nil, false
	}
	al, ok := sl.X.(*ssa.Alloc)
	if !ok {
		return nil, false
	}
	at, ok := al.Type().Underlying().(*types.Pointer).Elem().Underlying().(*types.Array)
	if !ok {
		return nil, false
	}
	out := make([]ssa.Value, at.Len())
	for _, r := range *al.Referrers() {
		ia, ok := r.(*ssa.IndexAddr)
		if !ok {
			continue
		}
		c, ok := ia.Index.(*ssa.Const)
		if !ok {
			return nil, false
		}
		idx := int(c.Int64())
		for _, r2 := range *ia.Referrers() {
			if st, ok := r2.(*ssa.Store); ok && st.Addr == ia {
				out[idx] = st.Val
			}
		}
	}
	for _, o := range out {
		if o == nil {
			return nil, false
		}
	}
	return out, true
}

func itoaTerm(t string) string {
	return fmt.Sprintf("(ite (>= %s 0) (str.from_int %s) (str.++ \"-\" (str.from_int (- %s))))", t, t, t)
}

// fmtArgString renders one Sprintf operand (an interface value built from a concrete value).
func (fc *FnCtx) fmtArgString(v ssa.Value, verb byte) (string, bool) {
	mi, ok := v.(*ssa.MakeInterface)
	if !ok {
		return "", false
	}
	x := fc.term(mi.X)
	b, ok := mi.X.Type().Underlying().(*types.Basic)
	if !ok {
		return "", false
	}
	switch {
	case b.Info()&types.IsString != 0 && (verb == 's' || verb == 'v'):
		return x.t, true
	case b.Info()&types.IsInteger != 0 && (verb == 'd' || verb == 'v'):
		return itoaTerm(x.t), true
	}
	return "", false
}

func constString(v ssa.Value) (string, bool) {
	c, ok := v.(*ssa.Const)
	if !ok || c.Value == nil {
		return "", false
	}
	if b, ok := c.Type().Underlying().(*types.Basic); !ok || b.Info()&types.IsString == 0 {
		return "", false
	}
	s, err := strconvUnquote(c.Value.ExactString())
	if err != nil {
		return "", false
	}
	return s, true
}

// sprintfTerm translates fmt.Sprintf with a constant format and scalar operands.
func (fc *FnCtx) sprintfTerm(format ssa.Value, rest ssa.Value) (string, bool) {
	f, ok := constString(format)
	if !ok {
		return "", false
	}
	ops, ok := varargStatic(rest)
	if !ok {
		return "", false
	}
	var parts []string
	lit := ""
	k := 0
	for i := 0; i < len(f); i++ {
		if f[i] != '%' {
			lit += string(f[i])
			continue
		}
		if i+1 >= len(f) {
			return "", false
		}
		i++
		if f[i] == '%' {
			lit += "%"
			continue
		}
		if k >= len(ops) {
			return "", false
		}
		s, ok := fc.fmtArgString(ops[k], f[i])
		if !ok {
			return "", false
		}
		k++
		if lit != "" {
			parts = append(parts, smtString(lit))
			lit = ""
		}
		parts = append(parts, s)
	}
	if k != len(ops) {
		return "", false
	}
	if lit != "" {
		parts = append(parts, smtString(lit))
	}
	if len(parts) == 0 {
		return "\"\"", true
	}
	if len(parts) == 1 {
		return parts[0], true
	}
	return "(str.++ " + strings.Join(parts, " ") + ")", true
}

var nonNilErrorCtors = []string{
	"errors.New", "fmt.Errorf", "github.com/cockroachdb/errors.New", "github.com/cockroachdb/errors.Newf", "github.com/cockroachdb/errors.Errorf",
	"github.com/milvus-io/milvus/pkg/util/merr.WrapErr", "github.com/zilliztech/milvus-cdc/server/error.NewClientError", "github.com/zilliztech/milvus-cdc/server/error.NewServerError",
	"github.com/zilliztech/milvus-cdc/server/error.NewNotFoundError", "github.com/zilliztech/milvus-cdc/server/error.NewClientf",
}

func (fc *FnCtx) specialCall(ins ssa.Instruction, callee *ssa.Function, cc *ssa.CallCommon, args []Val, setResult func([]Val)) bool {
	g := fc.g
	name := callee.String()
	one := func(t string, ty types.Type) {
		n := g.def(fc.prefix+"sp."+lastPart(name), g.sortOf(ty), t)
		setResult([]Val{{t: n, ty: ty}})
	}
	model := func(what string) { g.trusted["built-in model: "+what] = true }
	switch name {
	case "fmt.Sprintf":
		if t, ok := fc.sprintfTerm(cc.Args[0], cc.Args[1]); ok {
			model("fmt.Sprintf with constant format and %s/%d/%v operands of string/integer type = concatenation")
			one(t, tString)
			return true
		}
	case "strconv.FormatInt":
		if c, ok := cc.Args[1].(*ssa.Const); ok && c.Int64() == 10 {
			model("strconv.FormatInt(n, 10) = decimal string")
			one(itoaTerm(args[0].t), tString)
			return true
		}
	case "strconv.Itoa":
		model("strconv.Itoa = decimal string")
		one(itoaTerm(args[0].t), tString)
		return true
	case "strings.Contains":
		model("strings.Contains = str.contains")
		one(fmt.Sprintf("(str.contains %s %s)", args[0].t, args[1].t), tBool)
		return true
	case "strings.HasPrefix":
		model("strings.HasPrefix = str.prefixof")
		one(fmt.Sprintf("(str.prefixof %s %s)", args[1].t, args[0].t), tBool)
		return true
	case "strings.HasSuffix":
		model("strings.HasSuffix = str.suffixof")
		one(fmt.Sprintf("(str.suffixof %s %s)", args[1].t, args[0].t), tBool)
		return true
	case "strings.Index":
		model("strings.Index = str.indexof")
		one(fmt.Sprintf("(str.indexof %s %s 0)", args[0].t, args[1].t), tInt)
		return true
	case "strings.LastIndex":
		model("strings.LastIndex: -1 iff not contained, otherwise an index at which the substring fits")
		r := g.fresh(fc.prefix+"lastindex", "Int")
		fc.assume(fmt.Sprintf("(and (>= %s (- 1)) (<= (+ %s (str.len %s)) (str.len %s)) (= (= %s (- 1)) (not (str.contains %s %s))))", r, r, args[1].t, args[0].t, r, args[0].t, args[1].t), "strings.LastIndex")
		setResult([]Val{{t: r, ty: tInt}})
		return true
	case "strings.Split":
		if sep, ok := constString(cc.Args[1]); ok && len(sep) == 1 {
			model("strings.Split(s, c) for a one-character constant c: element count = occurrences+1; the two-part case is exact")
			fc.splitModel(ins, args[0], sep, setResult)
			return true
		}
	case "path.Join":
		if ops, ok := varargStatic(cc.Args[0]); ok && len(ops) >= 1 {
			model("path.Join(root, ids...) = root/id/... when root is a clean path (cleanRoot) and every id is a path identifier (non-empty, no '/', not '.' or '..'); otherwise an arbitrary string")
			g.declareFun("|cleanRoot|", "(String) Bool")
			var ts []string
			var conds []string
			for i, o := range ops {
				t := fc.term(o).t
				if i == 0 {
					conds = append(conds, fmt.Sprintf("(|cleanRoot| %s)", t))
					ts = append(ts, t)
				} else {
					conds = append(conds, identTerm(t))
					ts = append(ts, "\"/\"", t)
				}
			}
			r := g.fresh(fc.prefix+"pathjoin", "String")
			fc.assume(fmt.Sprintf("(=> %s (= %s (str.++ %s)))", and(conds), r, strings.Join(ts, " ")), "path.Join model")
			setResult([]Val{{t: r, ty: tString}})
			return true
		}
	}
	if fc.protoGetter(ins, callee, cc, args, setResult) {
		return true
	}
	for _, p := range nonNilErrorCtors {
		if strings.HasPrefix(name, p) && callee.Signature.Results().Len() == 1 {
			model("error constructors return a non-nil error: " + p)
			rs := fc.unknownCall(ins, name, callee.Signature, true)
			fc.assume(fmt.Sprintf("(not (= (itag %s) 0))", rs[0].t), "non-nil error")
			setResult(rs)
			return true
		}
	}
	for _, p := range errorWrappers {
		if name == p && callee.Signature.Results().Len() == 1 && len(args) >= 1 {
			// cockroachdb/errors: "If err is nil, WithMessage/Wrap returns nil", otherwise a wrapper (non-nil)
			model("error wrappers return nil exactly for a nil error: " + p)
			rs := fc.unknownCall(ins, name, callee.Signature, true)
			fc.assume(fmt.Sprintf("(= (= (itag %s) 0) (= (itag %s) 0))", rs[0].t, args[0].t), "wrapper nil iff wrapped nil")
			setResult(rs)
			return true
		}
	}
	return fc.specialSync(ins, callee, cc, args, setResult)
}

var errorWrappers = []string{
	"github.com/cockroachdb/errors.WithMessage", "github.com/cockroachdb/errors.WithMessagef",
	"github.com/cockroachdb/errors.Wrap", "github.com/cockroachdb/errors.Wrapf",
}

func identTerm(t string) string {
	return fmt.Sprintf("(and (not (= %s \"\")) (not (str.contains %s \"/\")) (not (= %s \".\")) (not (= %s \"..\")))", t, t, t, t)
}

// splitModel: strings.Split(s, c) with a one-character separator.
func (fc *FnCtx) splitModel(ins ssa.Instruction, s Val, sep string, setResult func([]Val)) {
	g := fc.g
	g.markAlloc(types.NewSlice(tString))
	r := fc.newRef()
	k := g.arrKey(tString)
	arr := g.fresh("split.arr", "(Array Int String)")
	n := g.fresh("split.n", "Int")
	g.set(fc.cur, k, fmt.Sprintf("(store %s %s %s)", g.get(fc.cur, k), r, arr))
	c := smtString(sep)
	idx := fmt.Sprintf("(str.indexof %s %s 0)", s.t, c)
	fc.assume(fmt.Sprintf("(>= %s 1)", n), "split count")
	fc.assume(fmt.Sprintf("(= (= %s 1) (< %s 0))", n, idx), "no separator <=> one part")
	fc.assume(fmt.Sprintf("(=> (= %s 1) (= (select %s 0) %s))", n, arr, s.t), "one part is the string")
	rest := fmt.Sprintf("(str.substr %s (+ %s 1) (str.len %s))", s.t, idx, s.t)
	fc.assume(fmt.Sprintf("(= (= %s 2) (and (>= %s 0) (not (str.contains %s %s))))", n, idx, rest, c), "exactly one separator <=> two parts")
	fc.assume(fmt.Sprintf("(=> (>= %s 2) (= (select %s 0) (str.substr %s 0 %s)))", n, arr, s.t, idx), "first part")
	fc.assume(fmt.Sprintf("(=> (= %s 2) (= (select %s 1) %s))", n, arr, rest), "second part")
	v := g.def(fc.prefix+"split", "Slice", fmt.Sprintf("(mkslice %s 0 %s %s)", r, n, n))
	setResult([]Val{{t: v, ty: types.NewSlice(tString)}})
}

var baseMsgGetters = map[string]string{"BeginTs": "BeginTimestamp", "EndTs": "EndTimestamp", "HashKeys": "HashValues", "Position": "MsgPosition"}

// protoGetter models generated protobuf getters `func (x *T) GetF() F { if x != nil { return x.F }; return zero }`
// and the trivial accessors of msgstream.BaseMsg, for external functions without a body.
func (fc *FnCtx) protoGetter(ins ssa.Instruction, callee *ssa.Function, cc *ssa.CallCommon, args []Val, setResult func([]Val)) bool {
	g := fc.g
	if callee.Blocks != nil || callee.Signature.Recv() == nil || callee.Signature.Params().Len() != 0 || callee.Signature.Results().Len() != 1 {
		return false
	}
	pt, ok := callee.Signature.Recv().Type().Underlying().(*types.Pointer)
	if !ok {
		return false
	}
	st, ok := pt.Elem().Underlying().(*types.Struct)
	if !ok {
		return false
	}
	name := callee.Name()
	field := ""
	if strings.HasPrefix(name, "Get") {
		field = name[3:]
	}
	if strings.HasSuffix(types.TypeString(pt.Elem(), nil), "msgstream.BaseMsg") {
		if f, ok := baseMsgGetters[name]; ok {
			field = f
		}
	}
	if field == "" {
		return false
	}
	rt := callee.Signature.Results().At(0).Type()
	for i := 0; i < st.NumFields(); i++ {
		if st.Field(i).Name() == field && types.Identical(st.Field(i).Type(), rt) {
			g.trusted["built-in model: generated protobuf getters (*T).GetF() = (x == nil ? zero : x.F) and msgstream.BaseMsg BeginTs/EndTs/Position accessors"] = true
			var t string
			if l, ok := fc.locs[cc.Args[0]]; ok && l.kind != "cell" {
				// receiver is the address of a struct embedded by value: read the field of the nested value
				whole := fc.loadLoc(l, pt.Elem())
				t = fmt.Sprintf("(%s %s)", g.sorts.structSel(pt.Elem(), i), whole)
			} else {
				k := g.fieldKey(pt.Elem(), i)
				t = fmt.Sprintf("(ite (= %s 0) %s (select %s %s))", args[0].t, g.sorts.zero(rt), g.get(fc.cur, k), args[0].t)
			}
			n := g.def(fc.prefix+"get."+field, g.sortOf(rt), t)
			if rc := g.sorts.rangeConstraint(rt, n); rc != "" {
				fc.assume(rc, "range")
			}
			fc.boundRefs(rt, n)
			setResult([]Val{{t: n, ty: rt}})
			return true
		}
	}
	return false
}
