package main

// Built-in models of the higher-order functions the code base uses with closures:
//   util.Map.Range(f)         - a loop over the entries of the ghost map (invariants: `rangeloop N invariant`)
//   retry.Do(ctx, f, opts...) - zero or more earlier attempts (havoc of what f may modify), then at most one
//                               final attempt whose result decides the returned error
//   sync.Once.Do(f)           - f runs at most once (havoc + optional run)

import (
	"fmt"
	"go/types"
	"strings"

	"golang.org/x/tools/go/ssa"
)

// closureOf finds the statically known closure passed as an argument.
func (fc *FnCtx) closureOf(v ssa.Value) *closureInfo {
	if ci, ok := fc.closures[v]; ok {
		return ci
	}
	switch x := v.(type) {
	case *ssa.MakeClosure:
		ci := &closureInfo{fn: x.Fn.(*ssa.Function)}
		for _, b := range x.Bindings {
			ci.bindings = append(ci.bindings, fc.term(b))
		}
		return ci
	case *ssa.Function:
		return &closureInfo{fn: x}
	case *ssa.ChangeType:
		return fc.closureOf(x.X)
	}
	return nil
}

// havocSynthetic havocs the keys recorded for synthetic loop id (pass 2) or everything (pass 1).
func (fc *FnCtx) havocSynthetic(id string) {
	g := fc.g
	old := g.get(fc.cur, "$alloc")
	mod := g.loopHavocs(id)
	for _, k := range g.keyOrder {
		if g.keys[k].kind == "stable" || g.keys[k].kind == "lockstate" || !mod(k) {
			continue
		}
		fc.cur.m[k] = g.fresh("hs."+k, g.keys[k].sort)
	}
	if mod("$alloc") {
		g.assumeRaw(fmt.Sprintf("(<= %s %s)", old, g.get(fc.cur, "$alloc")))
	}
	for _, k := range g.keyOrder {
		if mod(k) && g.keys[k].hasRef() {
			g.heapBound(k, g.get(fc.cur, k), g.get(fc.cur, "$alloc"))
		}
	}
}

// loopHavocs: which keys a loop (or synthetic loop) may modify - everything in the discovery pass and for
// loops that contain a full havoc; everything but the declared-private keys for loops whose havocs all spare
// them; otherwise the keys recorded as written.
func (g *Gen) loopHavocs(id string) func(k string) bool {
	if g.pass == 1 || g.loopAll[id] {
		return func(string) bool { return true }
	}
	if but, ok := g.loopAllBut[id]; ok {
		return func(k string) bool { return !but[k] || g.loopMods[id][k] }
	}
	return func(k string) bool { return g.loopMods[id][k] }
}

func (fc *FnCtx) syntheticID(kind string, ins ssa.Instruction) string {
	fc.synthN++
	return fmt.Sprintf("%s%s#%s%d", fc.prefix, relFuncName(fc.fn), kind, fc.synthN)
}

// retryDo models retry.Do(ctx, fn, opts...).
func (fc *FnCtx) retryDo(ins ssa.Instruction, cc *ssa.CallCommon, setResult func([]Val)) bool {
	g := fc.g
	ci := fc.closureOf(cc.Args[1])
	if ci == nil || ci.fn.Blocks == nil {
		return false
	}
	g.trusted["built-in model: retry.Do(ctx, f, opts) = zero or more failed attempts (arbitrary effects within what f can modify), then one final attempt of f whose nil/non-nil result is returned (Attempts >= 1)"] = true
	id := fc.syntheticID("retry", ins)
	// an invariant for the attempts may be given as `rangeloop N invariant ...` (N counts Range / ContainsBy / retry.Do
	// calls of the function): it holds before the first attempt and after every failed one
	// (retry.Do calls are counted on the function under verification, also when they sit in inlined callees)
	root := fc
	for root.parent != nil {
		root = root.parent
	}
	root.rangeN++
	rn := root.rangeN
	var ls *LoopSpec
	if root.c != nil {
		ls = root.c.RangeLoops[rn]
	}
	if ls != nil {
		env := root.envAt(fc.cur, root.debugNames)
		for i, inv := range ls.Invariants {
			fc.oblige("inv-entry", fmt.Sprintf("R%d.%d", rn, i+1), posOf(ins), env.boolExpr(inv.Expr), inv.Src, inv.Name)
		}
	}
	saved := g.curLoops
	g.curLoops = append(append([]string{}, saved...), id)
	// earlier attempts
	fc.havocSynthetic(id)
	if ls != nil {
		env := root.envAt(fc.cur, root.debugNames)
		for _, inv := range ls.Invariants {
			fc.assume(env.boolExpr(inv.Expr), "retry invariant "+inv.Src)
		}
	}
	// final attempt (retry.Do calls f at least once when Attempts >= 1, the default and every configured value)
	c := g.findContract(ci.fn)
	var rs []Val
	if c != nil && !c.Inline {
		fc.calleeFn = ci.fn
		rs = fc.applyContract(ins, c, ci.fn.String(), ci.fn.Signature, ci.bindingsAsArgs(), true, nil)
		fc.calleeFn = nil
	} else {
		rs = fc.inline(ins, ci.fn, c, ci, nil)
	}
	if ls != nil && len(rs) == 1 {
		// a failed attempt may be followed by another one: it re-establishes the invariant
		savedReach := fc.curReach
		fc.curReach = g.def(fc.prefix+"retry.failed", "Bool", fmt.Sprintf("(and %s (not (= (itag %s) 0)))", savedReach, rs[0].t))
		env := root.envAt(fc.cur, root.debugNames)
		for i, inv := range ls.Invariants {
			fc.oblige("inv-step", fmt.Sprintf("R%d.%d", rn, i+1), posOf(ins), env.boolExpr(inv.Expr), inv.Src, inv.Name)
		}
		fc.curReach = savedReach
	}
	g.curLoops = saved
	res := g.fresh(fc.prefix+"retry.err", "Iface")
	fc.assume(g.sorts.rangeConstraint(types.Universe.Lookup("error").Type(), res), "range")
	if len(rs) == 1 {
		fc.assume(fmt.Sprintf("(= (= (itag %s) 0) (= (itag %s) 0))", res, rs[0].t), "retry.Do result")
	}
	setResult([]Val{{t: res, ty: types.Universe.Lookup("error").Type()}})
	return true
}

func (ci *closureInfo) bindingsAsArgs() []Val { return nil }

// onceDo models sync.Once.Do(f): f runs at most once.
func (fc *FnCtx) onceDo(ins ssa.Instruction, cc *ssa.CallCommon, setResult func([]Val)) bool {
	g := fc.g
	ci := fc.closureOf(cc.Args[1])
	if ci == nil || ci.fn.Blocks == nil {
		return false
	}
	g.trusted["built-in model: sync.Once.Do(f) runs f at most once (ghost flag per Once object)"] = true
	onceKey := "G|$onceDone"
	g.regKey(onceKey, "(Array Int Bool)", "ghost")
	o := fc.term(cc.Args[0]).t
	done := fmt.Sprintf("(select %s %s)", g.get(fc.cur, onceKey), o)
	before := fc.cur.clone()
	reachBefore := fc.curReach
	fc.curReach = g.def(fc.prefix+"once.run", "Bool", fmt.Sprintf("(and %s (not %s))", reachBefore, done))
	fc.inline(ins, ci.fn, g.findContract(ci.fn), ci, nil)
	g.set(fc.cur, onceKey, fmt.Sprintf("(store %s %s true)", g.get(fc.cur, onceKey), o))
	after := fc.cur
	ran := fc.curReach
	skip := g.def(fc.prefix+"once.skip", "Bool", fmt.Sprintf("(and %s %s)", reachBefore, done))
	fc.cur = g.mergeStates([]string{ran, skip}, []*State{after, before})
	fc.curReach = g.def(fc.prefix+"once.after", "Bool", fmt.Sprintf("(or %s %s)", ran, skip))
	setResult(nil)
	return true
}

// umapKeys returns the ghost keys (domain, values) of util.Map[K,V] objects.
func (g *Gen) umapKeys(K, V types.Type) (string, string) {
	ks, vs := g.sortOf(K), g.sortOf(V)
	kd := "UMd|" + typeKey(K) + "|" + typeKey(V)
	kv := "UMv|" + typeKey(K) + "|" + typeKey(V)
	g.regKey(kd, "(Array Int (Array "+ks+" Bool))", "umap")
	g.regKeyT(kv, "(Array Int (Array "+ks+" "+vs+"))", "umap", V)
	return kd, kv
}

// utilMap models the methods of core/util.Map[K,V] (a typed wrapper around sync.Map) as a ghost map
// attached to the Map object.
func (fc *FnCtx) utilMap(ins ssa.Instruction, callee *ssa.Function, cc *ssa.CallCommon, args []Val, setResult func([]Val)) bool {
	g := fc.g
	name := callee.String()
	const pfx = "(*github.com/zilliztech/milvus-cdc/core/util.Map["
	const pfx2 = "(*github.com/milvus-io/milvus/pkg/util/typeutil.ConcurrentMap["
	if !strings.HasPrefix(name, pfx) && !strings.HasPrefix(name, pfx2) {
		return false
	}
	recvT := callee.Signature.Recv().Type().(*types.Pointer).Elem().(*types.Named)
	ta := recvT.TypeArgs()
	if ta.Len() != 2 {
		return false
	}
	K, V := ta.At(0), ta.At(1)
	kd, kv := g.umapKeys(K, V)
	m := args[0].t
	method := name[strings.LastIndex(name, ").")+2:]
	if i := strings.Index(method, "["); i >= 0 {
		method = method[:i]
	}
	g.trusted["built-in model: core/util.Map[K,V] and typeutil.ConcurrentMap[K,V] (typed sync.Map wrappers) are maps attached to the map object: Load/Get, Store/Insert, LoadWithDefault, Delete/Remove, GetAndRemove, Contain, Range"] = true
	dom := func() string { return fmt.Sprintf("(select %s %s)", g.get(fc.cur, kd), m) }
	val := func() string { return fmt.Sprintf("(select %s %s)", g.get(fc.cur, kv), m) }
	switch method {
	case "Contain":
		ok := g.def(fc.prefix+"um.ok", "Bool", fmt.Sprintf("(select %s %s)", dom(), args[1].t))
		setResult([]Val{{t: ok, ty: tBool}})
	case "GetAndRemove":
		ok := g.def(fc.prefix+"um.ok", "Bool", fmt.Sprintf("(select %s %s)", dom(), args[1].t))
		v := g.def(fc.prefix+"um.v", g.sortOf(V), fmt.Sprintf("(ite %s (select %s %s) %s)", ok, val(), args[1].t, g.sorts.zero(V)))
		if rc := g.sorts.rangeConstraint(V, v); rc != "" {
			fc.assume(rc, "range")
		}
		g.set(fc.cur, kd, fmt.Sprintf("(store %s %s (store %s %s false))", g.get(fc.cur, kd), m, dom(), args[1].t))
		setResult([]Val{{t: v, ty: V}, {t: ok, ty: tBool}})
	case "Load", "Get":
		ok := g.def(fc.prefix+"um.ok", "Bool", fmt.Sprintf("(select %s %s)", dom(), args[1].t))
		v := g.def(fc.prefix+"um.v", g.sortOf(V), fmt.Sprintf("(ite %s (select %s %s) %s)", ok, val(), args[1].t, g.sorts.zero(V)))
		if rc := g.sorts.rangeConstraint(V, v); rc != "" {
			fc.assume(rc, "range")
		}
		setResult([]Val{{t: v, ty: V}, {t: ok, ty: tBool}})
	case "LoadWithDefault":
		v := g.def(fc.prefix+"um.v", g.sortOf(V), fmt.Sprintf("(ite (select %s %s) (select %s %s) %s)", dom(), args[1].t, val(), args[1].t, args[2].t))
		if rc := g.sorts.rangeConstraint(V, v); rc != "" {
			fc.assume(rc, "range")
		}
		setResult([]Val{{t: v, ty: V}})
	case "Store", "Insert":
		g.set(fc.cur, kd, fmt.Sprintf("(store %s %s (store %s %s true))", g.get(fc.cur, kd), m, dom(), args[1].t))
		g.set(fc.cur, kv, fmt.Sprintf("(store %s %s (store %s %s %s))", g.get(fc.cur, kv), m, val(), args[1].t, args[2].t))
		setResult(nil)
	case "Delete", "Remove":
		g.set(fc.cur, kd, fmt.Sprintf("(store %s %s (store %s %s false))", g.get(fc.cur, kd), m, dom(), args[1].t))
		setResult(nil)
	case "Range":
		return fc.utilMapRange(ins, cc, K, V, m, kd, kv, setResult)
	default:
		return false
	}
	return true
}

// utilMapRange: loop over the entries with the closure as body.
func (fc *FnCtx) utilMapRange(ins ssa.Instruction, cc *ssa.CallCommon, K, V types.Type, m, kd, kv string, setResult func([]Val)) bool {
	g := fc.g
	ci := fc.closureOf(cc.Args[1])
	if ci == nil || ci.fn.Blocks == nil {
		return false
	}
	fc.rangeN++
	n := fc.rangeN
	var ls *LoopSpec
	if fc.c != nil {
		ls = fc.c.RangeLoops[n]
	}
	ks := g.sortOf(K)
	visKey := fmt.Sprintf("V|%sumrange%d", fc.prefix, n)
	g.regKey(visKey, "(Array "+ks+" Bool)", "visited")
	g.set(fc.cur, visKey, fmt.Sprintf("((as const (Array %s Bool)) false)", ks))
	id := fc.syntheticID("umrange", ins)
	dom := g.def("umdom", "(Array "+ks+" Bool)", fmt.Sprintf("(select %s %s)", g.get(fc.cur, kd), m))
	vals := g.def("umval", "(Array "+ks+" "+g.sortOf(V)+")", fmt.Sprintf("(select %s %s)", g.get(fc.cur, kv), m))
	mkEnv := func() *Env {
		env := fc.envAt(fc.cur, nil)
		env.visKey = visKey
		return env
	}
	// invariant on entry
	if ls != nil {
		env := mkEnv()
		for i, inv := range ls.Invariants {
			fc.oblige("inv-entry", fmt.Sprintf("R%d.%d", n, i+1), posOf(ins), env.boolExpr(inv.Expr), inv.Src, inv.Name)
		}
	}
	saved := g.curLoops
	g.curLoops = append(append([]string{}, saved...), id)
	fc.havocSynthetic(id)
	// the visited set is part of the loop state
	fc.cur.m[visKey] = g.fresh("hs."+visKey, "(Array "+ks+" Bool)")
	g.loopModsMark(id, visKey)
	if ls != nil {
		env := mkEnv()
		for _, inv := range ls.Invariants {
			fc.assume(env.boolExpr(inv.Expr), "range invariant "+inv.Src)
		}
	}
	vis := g.get(fc.cur, visKey)
	more := g.fresh(fc.prefix+"umrange.more", "Bool")
	k := g.fresh(fc.prefix+"umrange.k", ks)
	fc.assume(fmt.Sprintf("(=> %s (and (select %s %s) (not (select %s %s))))", more, dom, k, vis, k), "Range yields an unvisited entry")
	fc.assume(fmt.Sprintf("(=> (not %s) (= %s %s))", more, vis, dom), "Range ends when every entry was visited")
	headState := fc.cur.clone()
	headReach := fc.curReach
	// exit A: all visited
	exitA := g.def(fc.prefix+"umrange.done", "Bool", fmt.Sprintf("(and %s (not %s))", headReach, more))
	// body
	fc.curReach = g.def(fc.prefix+"umrange.body", "Bool", fmt.Sprintf("(and %s %s)", headReach, more))
	v := g.def(fc.prefix+"umrange.v", g.sortOf(V), fmt.Sprintf("(select %s %s)", vals, k))
	if rc := g.sorts.rangeConstraint(V, v); rc != "" {
		fc.assume(rc, "range")
	}
	rs := fc.inline(ins, ci.fn, g.findContract(ci.fn), ci, []Val{{t: k, ty: K}, {t: v, ty: V}})
	g.set(fc.cur, visKey, fmt.Sprintf("(store %s %s true)", g.get(fc.cur, visKey), k))
	bodyReach := fc.curReach
	cont := rs[0].t
	// back edge: closure returned true
	fc.curReach = g.def(fc.prefix+"umrange.back", "Bool", fmt.Sprintf("(and %s %s)", bodyReach, cont))
	if ls != nil {
		env := mkEnv()
		for i, inv := range ls.Invariants {
			fc.oblige("inv-step", fmt.Sprintf("R%d.%d", n, i+1), posOf(ins), env.boolExpr(inv.Expr), inv.Src, inv.Name)
		}
	}
	// exit B: closure returned false
	exitB := g.def(fc.prefix+"umrange.break", "Bool", fmt.Sprintf("(and %s (not %s))", bodyReach, cont))
	bodyState := fc.cur
	g.curLoops = saved
	fc.cur = g.mergeStates([]string{exitA, exitB}, []*State{headState, bodyState})
	fc.curReach = g.def(fc.prefix+"umrange.after", "Bool", fmt.Sprintf("(or %s %s)", exitA, exitB))
	res := g.def(fc.prefix+"umrange.all", "Bool", exitA)
	setResult([]Val{{t: res, ty: tBool}})
	return true
}

func (g *Gen) loopModsMark(id, k string) {
	if g.loopMods[id] == nil {
		g.loopMods[id] = map[string]bool{}
	}
	g.loopMods[id][k] = true
}

// atomicModel: go.uber.org/atomic and sync/atomic integer/bool boxes as a ghost value attached to the box
// (sequentially consistent single-goroutine view; other goroutines may change it at synchronisation points).
func (fc *FnCtx) atomicModel(ins ssa.Instruction, callee *ssa.Function, args []Val, setResult func([]Val)) bool {
	g := fc.g
	name := callee.String()
	var box string
	for _, p := range []string{"(*go.uber.org/atomic.Int32).", "(*go.uber.org/atomic.Int64).", "(*sync/atomic.Int32).", "(*sync/atomic.Int64)."} {
		if strings.HasPrefix(name, p) {
			box = p
		}
	}
	if box == "" {
		return false
	}
	key := "G|$atomicInt"
	g.regKey(key, "(Array Int Int)", "umap")
	g.trusted["built-in model: atomic.Int32/Int64 boxes (Load/Store/Inc/Dec/Add) as a ghost integer attached to the box"] = true
	o := args[0].t
	cur := fmt.Sprintf("(select %s %s)", g.get(fc.cur, key), o)
	rt := tInt
	if callee.Signature.Results().Len() == 1 {
		rt = callee.Signature.Results().At(0).Type().(*types.Basic)
	}
	upd := func(nv string) {
		w := wrapInt(rt, nv)
		n := g.def(fc.prefix+"atomic", "Int", w)
		g.set(fc.cur, key, fmt.Sprintf("(store %s %s %s)", g.get(fc.cur, key), o, n))
		if callee.Signature.Results().Len() == 1 {
			setResult([]Val{{t: n, ty: rt}})
		} else {
			setResult(nil)
		}
	}
	switch strings.TrimPrefix(name, box) {
	case "Load":
		n := g.def(fc.prefix+"atomic", "Int", cur)
		setResult([]Val{{t: n, ty: rt}})
	case "Inc":
		upd(fmt.Sprintf("(+ %s 1)", cur))
	case "Dec":
		upd(fmt.Sprintf("(- %s 1)", cur))
	case "Add":
		upd(fmt.Sprintf("(+ %s %s)", cur, args[1].t))
	case "Sub":
		upd(fmt.Sprintf("(- %s %s)", cur, args[1].t))
	case "Store":
		g.set(fc.cur, key, fmt.Sprintf("(store %s %s %s)", g.get(fc.cur, key), o, args[1].t))
		setResult(nil)
	default:
		return false
	}
	return true
}

func (fc *FnCtx) specialHigher(ins ssa.Instruction, callee *ssa.Function, cc *ssa.CallCommon, args []Val, setResult func([]Val)) bool {
	switch callee.String() {
	case "github.com/milvus-io/milvus/pkg/util/retry.Do":
		return fc.retryDo(ins, cc, setResult)
	case "(*sync.Once).Do":
		return fc.onceDo(ins, cc, setResult)
	case "sort.Slice", "sort.SliceStable":
		if fc.sortSlice(ins, cc, setResult) {
			return true
		}
	case "sort.Strings":
		if fc.sortStrings(ins, cc, setResult) {
			return true
		}
	}
	if strings.HasPrefix(callee.String(), "github.com/samber/lo.Map[") && fc.loMap(ins, cc, args, setResult) {
		return true
	}
	if strings.HasPrefix(callee.String(), "github.com/samber/lo.ContainsBy[") && fc.loContainsBy(ins, cc, args, setResult) {
		return true
	}
	if fc.atomicModel(ins, callee, args, setResult) {
		return true
	}
	return fc.utilMap(ins, callee, cc, args, setResult)
}

// resultOnly: the contract expression mentions nothing but the callee's result (and literals / spec functions),
// so its truth does not depend on the heap state it is evaluated in.
func resultOnly(n *CNode, cs *ContractSet) bool {
	if n == nil {
		return true
	}
	switch n.Kind {
	case "ident":
		return n.Name == "result" || n.Name == "result0"
	case "old", "quant", "index", "slice":
		return false
	case "call":
		if _, ok := cs.Specs[n.Name]; !ok {
			return false
		}
	case "field":
		// field selection of a struct value is state independent; through a pointer it is not (checked by the sort below)
	}
	for _, a := range n.Args {
		if !resultOnly(a, cs) {
			return false
		}
	}
	return true
}

// loMap models lo.Map(collection, f) for a closure f under contract: the result has one element per input
// element and every element satisfies those postconditions of f that speak about f's result value only;
// whatever f may modify is havocked as a whole.
func (fc *FnCtx) loMap(ins ssa.Instruction, cc *ssa.CallCommon, args []Val, setResult func([]Val)) bool {
	g := fc.g
	if len(cc.Args) != 2 {
		return false
	}
	ci := fc.closureOf(cc.Args[1])
	if ci == nil || ci.fn.Blocks == nil {
		return false
	}
	c := g.findContract(ci.fn)
	if c == nil || c.Inline || !c.ModSet {
		return false
	}
	sig := ci.fn.Signature
	if sig.Results().Len() != 1 {
		return false
	}
	et := sig.Results().At(0).Type()
	if _, isStruct := et.Underlying().(*types.Struct); !isStruct {
		if _, isBasic := et.Underlying().(*types.Basic); !isBasic {
			return false
		}
	}
	g.trusted["built-in model: lo.Map(xs, f) returns len(xs) elements, each satisfying the result-only postconditions of f's contract ("+shortPkg(c.Key)+"); what f may modify is havocked as a whole"] = true
	old := fc.cur.clone()
	env := fc.envAt(fc.cur, nil)
	env.vars = map[string]Val{}
	if c.Pkg != "" {
		if p := g.ld.typesPkg(c.Pkg); p != nil {
			env.pkg = p
		}
	}
	pn, _ := sigNames(sig, c, false)
	for i := 0; i < sig.Params().Len() && i < len(pn); i++ {
		pt := sig.Params().At(i).Type()
		ph := g.fresh(fc.prefix+"lomap.arg", g.sortOf(pt))
		env.vars[pn[i]] = Val{t: ph, ty: pt}
	}
	targets, all := env.resolveModifies(c.Modifies)
	if all {
		keep := map[string]string{}
		for _, t := range targets {
			keep[t.key] = g.get(fc.cur, t.key)
		}
		g.havocAll(fc.cur, "lo.Map")
		for k, v := range keep {
			fc.cur.m[k] = v
		}
		fc.restorePrivate(old)
	} else {
		for _, t := range targets {
			if t.whole && t.fresh {
				oldK := g.get(fc.cur, t.key)
				g.havocKey(fc.cur, t.key, "lo.Map")
				fc.assume(fmt.Sprintf("(forall ((|o| Int)) (! (=> (<= |o| %s) (= (select %s |o|) (select %s |o|))) :pattern ((select %s |o|))))", g.get(old, "$alloc"), g.get(fc.cur, t.key), oldK, g.get(fc.cur, t.key)), "objects that existed before the call keep their contents")
			} else {
				g.havocKey(fc.cur, t.key, "lo.Map")
			}
		}
		oa := g.get(fc.cur, "$alloc")
		g.havocKey(fc.cur, "$alloc", "lo.Map")
		fc.assume(fmt.Sprintf("(<= %s %s)", oa, g.get(fc.cur, "$alloc")), "alloc grows")
		for _, t := range targets {
			if g.keys[t.key].hasRef() {
				g.heapBound(t.key, g.get(fc.cur, t.key), g.get(fc.cur, "$alloc"))
			}
		}
	}
	// the result slice
	rst := types.NewSlice(et)
	g.markAlloc(rst)
	r := fc.newRef()
	k := g.arrKey(et)
	arr := g.fresh(fc.prefix+"lomap.arr", "(Array Int "+g.sortOf(et)+")")
	g.set(fc.cur, k, fmt.Sprintf("(store %s %s %s)", g.get(fc.cur, k), r, arr))
	n := fmt.Sprintf("(slen %s)", args[0].t)
	res := g.def(fc.prefix+"lomap.res", "Slice", fmt.Sprintf("(mkslice %s 0 %s %s)", r, n, n))
	penv := env.sub()
	penv.state = fc.cur
	penv.oldState = old
	el := Val{t: fmt.Sprintf("(select %s |lm.i|)", arr), ty: et}
	penv.vars["result"] = el
	penv.vars["result0"] = el
	for _, en := range c.Ensures {
		if !resultOnly(en.Expr, g.cs) {
			continue
		}
		body := penv.boolExpr(en.Expr)
		fc.assume(fmt.Sprintf("(forall ((|lm.i| Int)) (! (=> (and (<= 0 |lm.i|) (< |lm.i| %s)) %s) :pattern ((select %s |lm.i|))))", n, body, arr), "lo.Map: every element satisfies "+en.Src)
	}
	if rc := g.sorts.rangeConstraint(et, el.t); rc != "" {
		fc.assume(fmt.Sprintf("(forall ((|lm.i| Int)) (! %s :pattern ((select %s |lm.i|))))", rc, arr), "range")
	}
	setResult([]Val{{t: res, ty: rst}})
	return true
}

// closureReadsOnly: the function (and the closures it creates) contains no store, send, map update or call
// other than interface method calls / builtins / static calls into packages without bodies that the generator
// treats as pure: calling it cannot change the verified state.
func (g *Gen) closureReadsOnly(f *ssa.Function, depth int) bool {
	if f == nil || f.Blocks == nil || depth > 3 {
		return false
	}
	for _, b := range f.Blocks {
		for _, ins := range b.Instrs {
			switch x := ins.(type) {
			case *ssa.Store:
				// stores to the function's own fresh locals are fine
				if al, ok := x.Addr.(*ssa.Alloc); !ok || al.Parent() != f {
					return false
				}
			case *ssa.MapUpdate, *ssa.Send, *ssa.Go, *ssa.Defer:
				return false
			case *ssa.MakeClosure:
				if c, ok := x.Fn.(*ssa.Function); !ok || !g.closureReadsOnly(c, depth+1) {
					return false
				}
			case *ssa.Call:
				if _, isB := x.Call.Value.(*ssa.Builtin); isB {
					continue
				}
				if x.Call.IsInvoke() {
					name := "(" + types.TypeString(x.Call.Value.Type(), nil) + ")." + x.Call.Method.Name()
					if !g.isPureExternal(name) {
						return false
					}
					continue
				}
				sc := x.Call.StaticCallee()
				if sc == nil || !g.isPureExternal(sc.String()) {
					return false
				}
			}
		}
	}
	return true
}

// sortSlice models sort.Slice(x, less) for a `less` that only reads: the elements of x are permuted in place,
// nothing else changes.  The permutation is an uninterpreted bijection of the index range.
func (fc *FnCtx) sortSlice(ins ssa.Instruction, cc *ssa.CallCommon, setResult func([]Val)) bool {
	g := fc.g
	mi, ok := cc.Args[0].(*ssa.MakeInterface)
	if !ok {
		return false
	}
	st, ok := mi.X.Type().Underlying().(*types.Slice)
	if !ok {
		return false
	}
	ci := fc.closureOf(cc.Args[1])
	if ci == nil || !g.closureReadsOnly(ci.fn, 0) {
		return false
	}
	sl := fc.term(mi.X).t
	k := g.arrKey(st.Elem())
	h := g.get(fc.cur, k)
	es := g.sortOf(st.Elem())
	g.n++
	pi, inv := fmt.Sprintf("|sort.pi!%d|", g.n), fmt.Sprintf("|sort.inv!%d|", g.n)
	g.emit(fmt.Sprintf("(declare-fun %s (Int) Int)", pi))
	g.emit(fmt.Sprintf("(declare-fun %s (Int) Int)", inv))
	old := fmt.Sprintf("(select %s (sarr %s))", h, sl)
	na := g.fresh(fc.prefix+"sort.arr", "(Array Int "+es+")")
	n := fmt.Sprintf("(slen %s)", sl)
	// positions outside the slice keep their content; position i holds the old element pi(i)
	fc.assume(fmt.Sprintf("(forall ((|i| Int)) (! (=> (or (< |i| (soff %s)) (>= |i| (+ (soff %s) %s))) (= (select %s |i|) (select %s |i|))) :pattern ((select %s |i|))))", sl, sl, n, na, old, na), "sort.Slice: outside the slice unchanged")
	fc.assume(fmt.Sprintf("(forall ((|i| Int)) (! (=> (and (<= 0 |i|) (< |i| %s)) (and (<= 0 (%s |i|)) (< (%s |i|) %s) (= (%s (%s |i|)) |i|) (= (select %s (|ix| (soff %s) |i|)) (select %s (|ix| (soff %s) (%s |i|)))))) :pattern ((select %s (|ix| (soff %s) |i|))) :pattern ((%s |i|))))", n, pi, pi, n, inv, pi, na, sl, old, sl, pi, na, sl, pi), "sort.Slice: a permutation")
	fc.assume(fmt.Sprintf("(forall ((|j| Int)) (! (=> (and (<= 0 |j|) (< |j| %s)) (and (<= 0 (%s |j|)) (< (%s |j|) %s) (= (%s (%s |j|)) |j|))) :pattern ((%s |j|))))", n, inv, inv, n, pi, inv, inv), "sort.Slice: the permutation is onto")
	g.set(fc.cur, k, fmt.Sprintf("(store %s (sarr %s) %s)", h, sl, na))
	g.trusted["built-in model: sort.Slice / sort.SliceStable with a read-only comparator permute the slice's elements in place and change nothing else (sortedness is not assumed)"] = true
	setResult(nil)
	return true
}

// sortStrings models sort.Strings(x): the elements of x are permuted in place (uninterpreted bijection of the index
// range) and end up in non-decreasing lexicographic order; nothing else changes.
func (fc *FnCtx) sortStrings(ins ssa.Instruction, cc *ssa.CallCommon, setResult func([]Val)) bool {
	g := fc.g
	st, ok := cc.Args[0].Type().Underlying().(*types.Slice)
	if !ok {
		return false
	}
	sl := fc.term(cc.Args[0]).t
	k := g.arrKey(st.Elem())
	h := g.get(fc.cur, k)
	g.n++
	pi, inv := fmt.Sprintf("|sort.pi!%d|", g.n), fmt.Sprintf("|sort.inv!%d|", g.n)
	g.emit(fmt.Sprintf("(declare-fun %s (Int) Int)", pi))
	g.emit(fmt.Sprintf("(declare-fun %s (Int) Int)", inv))
	old := fmt.Sprintf("(select %s (sarr %s))", h, sl)
	na := g.fresh(fc.prefix+"sort.arr", "(Array Int String)")
	n := fmt.Sprintf("(slen %s)", sl)
	fc.assume(fmt.Sprintf("(forall ((|i| Int)) (! (=> (or (< |i| (soff %s)) (>= |i| (+ (soff %s) %s))) (= (select %s |i|) (select %s |i|))) :pattern ((select %s |i|))))", sl, sl, n, na, old, na), "sort.Strings: outside the slice unchanged")
	fc.assume(fmt.Sprintf("(forall ((|i| Int)) (! (=> (and (<= 0 |i|) (< |i| %s)) (and (<= 0 (%s |i|)) (< (%s |i|) %s) (= (%s (%s |i|)) |i|) (= (select %s (|ix| (soff %s) |i|)) (select %s (|ix| (soff %s) (%s |i|)))))) :pattern ((select %s (|ix| (soff %s) |i|))) :pattern ((%s |i|))))", n, pi, pi, n, inv, pi, na, sl, old, sl, pi, na, sl, pi), "sort.Strings: a permutation")
	fc.assume(fmt.Sprintf("(forall ((|j| Int)) (! (=> (and (<= 0 |j|) (< |j| %s)) (and (<= 0 (%s |j|)) (< (%s |j|) %s) (= (%s (%s |j|)) |j|))) :pattern ((%s |j|))))", n, inv, inv, n, pi, inv, inv), "sort.Strings: the permutation is onto")
	fc.assume(fmt.Sprintf("(forall ((|i| Int) (|j| Int)) (! (=> (and (<= 0 |i|) (<= |i| |j|) (< |j| %s)) (str.<= (select %s (|ix| (soff %s) |i|)) (select %s (|ix| (soff %s) |j|)))) :pattern ((select %s (|ix| (soff %s) |i|)) (select %s (|ix| (soff %s) |j|)))))", n, na, sl, na, sl, na, sl, na, sl), "sort.Strings: sorted")
	g.set(fc.cur, k, fmt.Sprintf("(store %s (sarr %s) %s)", h, sl, na))
	g.trusted["built-in model: sort.Strings permutes the slice's elements in place into non-decreasing lexicographic order and changes nothing else"] = true
	setResult(nil)
	return true
}

// loContainsBy models lo.ContainsBy(xs, pred) as the loop it is: for i := range xs { if pred(xs[i]) { return true } };
// return false - with the predicate closure inlined as the loop body and the invariant taken from the enclosing
// function's contract (`rangeloop N invariant ...`, N counting Range / ContainsBy loops; `rangeindex` is the index of
// the last element already tested).
func (fc *FnCtx) loContainsBy(ins ssa.Instruction, cc *ssa.CallCommon, args []Val, setResult func([]Val)) bool {
	g := fc.g
	if len(cc.Args) != 2 {
		return false
	}
	ci := fc.closureOf(cc.Args[1])
	if ci == nil || ci.fn.Blocks == nil || ci.fn.Signature.Params().Len() != 1 {
		return false
	}
	st, ok := cc.Args[0].Type().Underlying().(*types.Slice)
	if !ok {
		return false
	}
	fc.rangeN++
	n := fc.rangeN
	root := fc
	for root.parent != nil {
		root = root.parent
	}
	var ls *LoopSpec
	if fc.c != nil {
		ls = fc.c.RangeLoops[n]
	}
	xs := args[0].t
	ln := fmt.Sprintf("(slen %s)", xs)
	id := fc.syntheticID("containsBy", ins)
	mkEnv := func(idx string) *Env {
		env := fc.envAt(fc.cur, fc.debugNames)
		env.vars["rangeindex"] = Val{t: idx, ty: tInt}
		return env
	}
	if ls != nil {
		env := mkEnv("(- 1)")
		for i, inv := range ls.Invariants {
			fc.oblige("inv-entry", fmt.Sprintf("R%d.%d", n, i+1), posOf(ins), env.boolExpr(inv.Expr), inv.Src, inv.Name)
		}
	}
	saved := g.curLoops
	g.curLoops = append(append([]string{}, saved...), id)
	fc.havocSynthetic(id)
	idx := g.fresh(fc.prefix+"containsBy.idx", "Int")
	fc.assume(fmt.Sprintf("(and (<= (- 1) %s) (< %s %s))", idx, idx, ln), "ContainsBy: index of the last tested element")
	if ls != nil {
		env := mkEnv(idx)
		for _, inv := range ls.Invariants {
			fc.assume(env.boolExpr(inv.Expr), "range invariant "+inv.Src)
		}
	}
	headState := fc.cur.clone()
	headReach := fc.curReach
	more := fmt.Sprintf("(< (+ %s 1) %s)", idx, ln)
	exitA := g.def(fc.prefix+"containsBy.none", "Bool", fmt.Sprintf("(and %s (not %s))", headReach, more))
	fc.curReach = g.def(fc.prefix+"containsBy.body", "Bool", fmt.Sprintf("(and %s %s)", headReach, more))
	cur := g.def(fc.prefix+"containsBy.i", "Int", fmt.Sprintf("(+ %s 1)", idx))
	k := g.arrKey(st.Elem())
	el := g.def(fc.prefix+"containsBy.elem", g.sortOf(st.Elem()), fmt.Sprintf("(select (select %s (sarr %s)) (|ix| (soff %s) %s))", g.get(fc.cur, k), xs, xs, cur))
	if rc := g.sorts.rangeConstraint(st.Elem(), el); rc != "" {
		fc.assume(rc, "range")
	}
	rs := fc.inline(ins, ci.fn, g.findContract(ci.fn), ci, []Val{{t: el, ty: st.Elem()}})
	bodyReach := fc.curReach
	hit := rs[0].t
	fc.curReach = g.def(fc.prefix+"containsBy.back", "Bool", fmt.Sprintf("(and %s (not %s))", bodyReach, hit))
	if ls != nil {
		env := mkEnv(cur)
		for i, inv := range ls.Invariants {
			fc.oblige("inv-step", fmt.Sprintf("R%d.%d", n, i+1), posOf(ins), env.boolExpr(inv.Expr), inv.Src, inv.Name)
		}
	}
	exitB := g.def(fc.prefix+"containsBy.found", "Bool", fmt.Sprintf("(and %s %s)", bodyReach, hit))
	bodyState := fc.cur
	g.curLoops = saved
	fc.cur = g.mergeStates([]string{exitA, exitB}, []*State{headState, bodyState})
	fc.curReach = g.def(fc.prefix+"containsBy.after", "Bool", fmt.Sprintf("(or %s %s)", exitA, exitB))
	res := g.def(fc.prefix+"containsBy.res", "Bool", exitB)
	// what is known after the loop: found => the element at index idx+1 made the predicate true (facts assumed while
	// inlining the body); none => every element was tested (idx == len-1) under the invariant
	g.trusted["built-in model: lo.ContainsBy(xs, pred) is the loop `for i := range xs { if pred(xs[i]) { return true } }; return false`"] = true
	setResult([]Val{{t: res, ty: tBool}})
	return true
}
