package main

// SSA -> SMT verification-condition generator (DESIGN.md section 1.3).

import (
	"fmt"
	"go/token"
	"go/types"
	"os"
	"regexp"
	"sort"
	"strings"

	"golang.org/x/tools/go/ssa"
)

type Val struct {
	t     string
	ty    types.Type
	tuple []Val
	gk    string     // ghost kind: "" | seq | gmap | set | sort (opaque)
	ge    types.Type // element / value type
	gkt   types.Type // key type (gmap)
	gs    string     // explicit sort for ghost values
	cell  ssa.Value  // the variable cell this pointer value names (captured variables in closure contracts)
}

// State maps heap keys to SMT terms.  Total over Gen.universe in pass 2.
type State struct {
	m map[string]string
}

func (s *State) clone() *State {
	n := &State{m: make(map[string]string, len(s.m))}
	for k, v := range s.m {
		n.m[k] = v
	}
	return n
}

type Assump struct {
	seq  int
	term string
	why  string
	blk  int // block of the root function the assumption was made in (-1: none / applies everywhere)
}

type Oblig struct {
	Name   string
	Kind   string
	Func   string
	Pos    token.Position
	seq    int
	reach  string
	goal   string
	Clause string // source text of the clause if any
	Label  string
	extra  []string
	blk    int // block of the root function (-1: after the merge of all returns)
}

type KeyInfo struct {
	sort string
	kind string   // field cell arr mdom mval ghost alloc visited
	ref  string   // "" | "ptr" | "slice": the stored values are references (closed-heap invariant)
	sub  []subRef // struct-valued keys: the references stored inside the struct value
	valT string   // type of the stored values
}

// Gen is one verification unit: a function under contract (with its inlined callees).
type Gen struct {
	ld           *Loader
	cs           *ContractSet
	sorts        *Sorts
	lines        []string // definitions in order
	n            int
	seq          int
	assumps      []Assump
	obligs       []*Oblig
	keys         map[string]KeyInfo // universe
	keyOrder     []string
	pass         int
	loopMods     map[string]map[string]bool // loop id -> keys written (from pass 1)
	loopAll      map[string]bool
	curLoops     []string
	declared     map[string]bool
	rootFn       *ssa.Function
	rootC        *Contract
	notes        map[string]bool // abstractions / trusted items used
	trusted      map[string]bool
	globals      map[string]string
	newKeys      bool
	funcIDs      map[string]int
	covers       []*Oblig
	boxAx        map[string]bool
	unsupported  []string
	ufs          map[string]ufDecl
	allocKinds   map[string]bool
	ordinals     map[string]int
	obNames      map[string]int
	curBlk       int                               // index of the root function's block being generated (-1 outside)
	rootReach    map[int]map[int]bool              // forward reachability between blocks of the root function (back edges cut)
	loopAllBut   map[string]map[string]bool        // loop id -> everything is modified except these keys
	wreachKey    map[string]map[*ssa.Function]bool // per private key
	wreach       map[*ssa.Function]bool            // functions that can reach a writer of the root's private keys (private.go)
	macros       map[string]string                 // array-valued define-funs: name -> sort
	atoms        map[string]string                 // macro name -> constant equal to it (for patterns)
	msgUniSeed   []types.Type                      // message types that received a type tag in the previous pass
	msgUni       []types.Type                      // message types mentioned by the package under verification (msgmodel.go)
	constClosure map[ssa.Value]*closureInfo        // write-once cells holding a known closure
	constVal     map[ssa.Value]Val                 // write-once local variable cells (see constcell.go): their content as a value
}

func (g *Gen) note(s string) { g.notes[s] = true }

func (g *Gen) emit(l string) { g.lines = append(g.lines, l) }

func (g *Gen) fresh(prefix, sort string) string {
	g.n++
	name := fmt.Sprintf("|%s!%d|", strings.Trim(sanitize(prefix), "|"), g.n)
	g.emit(fmt.Sprintf("(declare-const %s %s)", name, sort))
	return name
}

func (g *Gen) def(prefix, sort, term string) string {
	// avoid renaming simple atoms
	if !strings.ContainsAny(term, " (") {
		return term
	}
	g.n++
	name := fmt.Sprintf("|%s!%d|", strings.Trim(sanitize(prefix), "|"), g.n)
	if sort == "Int" {
		// integers are named by constants (not macros) so that index terms stay atomic for E-matching
		g.emit(fmt.Sprintf("(declare-const %s Int)", name))
		g.emit(fmt.Sprintf("(assert (= %s %s))", name, term))
		return name
	}
	g.emit(fmt.Sprintf("(define-fun %s () %s %s)", name, sort, term))
	if sort != "Bool" {
		if g.macros == nil {
			g.macros = map[string]string{}
		}
		g.macros[name] = sort
	}
	return name
}

var macroNameRe = regexp.MustCompile(`\|[^|]*\|`)

// atomize replaces array-valued macros (state versions built from store/ite terms) in a quantifier pattern by
// constants equal to them: patterns must not contain ite / boolean structure.
func (g *Gen) atomize(t string) string {
	return macroNameRe.ReplaceAllStringFunc(t, func(n string) string {
		srt, ok := g.macros[n]
		if !ok {
			return n
		}
		if a, ok := g.atoms[n]; ok {
			return a
		}
		if g.atoms == nil {
			g.atoms = map[string]string{}
		}
		g.n++
		a := fmt.Sprintf("|at.%s!%d|", strings.Trim(n, "|"), g.n)
		g.emit(fmt.Sprintf("(declare-const %s %s)", a, srt))
		g.emit(fmt.Sprintf("(assert (= %s %s))", a, n))
		g.atoms[n] = a
		return a
	})
}

func (g *Gen) declareFun(name, sig string) {
	if g.declared[name] {
		return
	}
	g.declared[name] = true
	g.emit(fmt.Sprintf("(declare-fun %s %s)", name, sig))
}

// cardFn declares the cardinality function of finite key sets (len of a Go map) with the three facts used about
// it: it is non-negative, a set with a member has at least one element, and a one-element set has one member.
func (g *Gen) cardFn(ks string) string {
	fn := "|card!" + sanitize(ks) + "|"
	if g.declared[fn] {
		return fn
	}
	g.declareFun(fn, "((Array "+ks+" Bool)) Int")
	S := "(Array " + ks + " Bool)"
	g.emit(fmt.Sprintf("(assert (forall ((S %s)) (! (<= 0 (%s S)) :pattern ((%s S)))))", S, fn, fn))
	g.emit(fmt.Sprintf("(assert (forall ((S %s) (k %s)) (! (=> (select S k) (<= 1 (%s S))) :pattern ((%s S) (select S k)))))", S, ks, fn, fn))
	g.emit(fmt.Sprintf("(assert (forall ((S %s) (k1 %s) (k2 %s)) (! (=> (and (select S k1) (select S k2) (= (%s S) 1)) (= k1 k2)) :pattern ((%s S) (select S k1) (select S k2)))))", S, ks, ks, fn, fn))
	return fn
}

func (g *Gen) sortOf(t types.Type) string { return g.sorts.sortOf(t) }

// key registration ---------------------------------------------------------

func refKind(t types.Type) string {
	switch t.Underlying().(type) {
	case *types.Pointer, *types.Map, *types.Chan:
		return "ptr"
	case *types.Slice:
		return "slice"
	}
	return ""
}

// subRef: a reference-typed field (possibly nested) of a struct value: the selector chain that reaches it.
type subRef struct {
	sels []string // datatype selectors, outermost struct first
	ref  string   // "ptr" | "slice"
	valT string
}

func (g *Gen) subRefs(t types.Type, prefix []string, depth int) []subRef {
	st, ok := t.Underlying().(*types.Struct)
	if !ok || depth > 3 {
		return nil
	}
	var out []subRef
	for i := 0; i < st.NumFields(); i++ {
		ft := st.Field(i).Type()
		sels := append(append([]string{}, prefix...), g.sorts.structSel(t, i))
		if r := refKind(ft); r != "" {
			out = append(out, subRef{sels: sels, ref: r, valT: types.TypeString(unaliasDeep(ft), nil)})
		} else if _, ok := ft.Underlying().(*types.Struct); ok {
			out = append(out, g.subRefs(ft, sels, depth+1)...)
		}
	}
	return out
}

func (g *Gen) regKeyT(k, sort, kind string, valT types.Type) {
	if _, ok := g.keys[k]; ok {
		return
	}
	g.regKey(k, sort, kind)
	ki := g.keys[k]
	ki.ref = refKind(valT)
	if ki.ref == "" && strings.HasPrefix(sort, "(Array Int ") && g.sortOf(valT) != "Int" {
		if _, ok := valT.Underlying().(*types.Struct); ok {
			ki.sub = g.subRefs(valT, nil, 0)
		}
	}
	ki.valT = types.TypeString(unaliasDeep(valT), nil)
	g.keys[k] = ki
}

// markAlloc records that objects referenced by values of type t are allocated inside this unit
// (by the code itself or by a callee whose contract says so): only for such reference types can a
// fresh reference be confused with a stored one, so only they need the closed-heap bound.
func (g *Gen) markAlloc(t types.Type) {
	g.allocKinds[types.TypeString(unaliasDeep(t), nil)] = true
}

// heapBound: closed-heap invariant for a fresh version `term` of heap key k: every reference stored
// in it was allocated before `alloc` (so later allocations cannot alias what is already stored).
func (g *Gen) heapBound(k, term, alloc string) {
	ki := g.keys[k]
	if ki.ref == "" {
		g.heapBoundSub(ki, term, alloc)
		return
	}
	if ki.ref == "seq" {
		_, ln, _ := seqFns(ki.sort)
		g.assumeRaw(fmt.Sprintf("(<= 0 (%s %s))", ln, term))
		return
	}
	if g.pass != 1 && !g.allocKinds[ki.valT] {
		return
	}
	term = g.atomize(term)
	sel := func(x string) string {
		if ki.ref == "slice" {
			return "(sarr " + x + ")"
		}
		return x
	}
	switch ki.kind {
	case "field", "cell":
		g.assumeRaw(fmt.Sprintf("(forall ((|o| Int)) (! (<= %s %s) :pattern ((select %s |o|))))", sel(fmt.Sprintf("(select %s |o|)", term)), alloc, term))
	case "arr":
		g.assumeRaw(fmt.Sprintf("(forall ((|o| Int) (|i| Int)) (! (<= %s %s) :pattern ((select (select %s |o|) |i|))))", sel(fmt.Sprintf("(select (select %s |o|) |i|)", term)), alloc, term))
	case "mval", "umap":
		ks := ki.sort[len("(Array Int (Array "):]
		ks = firstSort(ks)
		g.assumeRaw(fmt.Sprintf("(forall ((|o| Int) (|k| %s)) (! (<= %s %s) :pattern ((select (select %s |o|) |k|))))", ks, sel(fmt.Sprintf("(select (select %s |o|) |k|)", term)), alloc, term))
	}
}

// heapBoundSub: the closed-heap invariant for references stored inside struct values.
func (g *Gen) heapBoundSub(ki KeyInfo, term, alloc string) {
	if len(ki.sub) == 0 {
		return
	}
	var conj []string
	var bind, read string
	switch ki.kind {
	case "field", "cell":
		bind, read = "((|o| Int))", "(select %s |o|)"
	case "arr":
		bind, read = "((|o| Int) (|i| Int))", "(select (select %s |o|) |i|)"
	case "mval", "umap":
		ks := firstSort(ki.sort[len("(Array Int (Array "):])
		bind, read = "((|o| Int) (|k| "+ks+"))", "(select (select %s |o|) |k|)"
	default:
		return
	}
	term = g.atomize(term)
	rd := fmt.Sprintf(read, term)
	for _, sr := range ki.sub {
		if g.pass != 1 && !g.allocKinds[sr.valT] {
			continue
		}
		x := rd
		for _, s := range sr.sels {
			x = "(" + s + " " + x + ")"
		}
		if sr.ref == "slice" {
			x = "(sarr " + x + ")"
		}
		conj = append(conj, fmt.Sprintf("(<= %s %s)", x, alloc))
	}
	if len(conj) == 0 {
		return
	}
	g.assumeRaw(fmt.Sprintf("(forall %s (! (and %s) :pattern (%s)))", bind, strings.Join(conj, " "), rd))
}

// firstSort returns the first complete sort expression at the start of s.
func firstSort(s string) string {
	s = strings.TrimSpace(s)
	if !strings.HasPrefix(s, "(") && !strings.HasPrefix(s, "|") {
		if i := strings.IndexAny(s, " )"); i >= 0 {
			return s[:i]
		}
		return s
	}
	if strings.HasPrefix(s, "|") {
		return s[:strings.Index(s[1:], "|")+2]
	}
	depth := 0
	for i, c := range s {
		if c == '(' {
			depth++
		} else if c == ')' {
			depth--
			if depth == 0 {
				return s[:i+1]
			}
		}
	}
	return s
}

func (g *Gen) regKey(k, sort, kind string) {
	if _, ok := g.keys[k]; ok {
		return
	}
	g.keys[k] = KeyInfo{sort: sort, kind: kind}
	g.keyOrder = append(g.keyOrder, k)
	g.newKeys = true
}

func (g *Gen) fieldKey(T types.Type, idx int) string {
	st := T.Underlying().(*types.Struct)
	k := "H|" + typeKey(T) + "|" + st.Field(idx).Name()
	g.regKeyT(k, "(Array Int "+g.sortOf(st.Field(idx).Type())+")", "field", st.Field(idx).Type())
	return k
}

func (g *Gen) cellKey(T types.Type) string {
	k := "C|" + typeKey(T)
	g.regKeyT(k, "(Array Int "+g.sortOf(T)+")", "cell", T)
	return k
}

func (g *Gen) arrKey(elem types.Type) string {
	k := "A|" + typeKey(elem)
	g.regKeyT(k, "(Array Int (Array Int "+g.sortOf(elem)+"))", "arr", elem)
	return k
}

func (g *Gen) mapKeys(m *types.Map) (string, string) {
	ks, vs := g.sortOf(m.Key()), g.sortOf(m.Elem())
	kd := "Md|" + typeKey(m.Key()) + "|" + typeKey(m.Elem())
	kv := "Mv|" + typeKey(m.Key()) + "|" + typeKey(m.Elem())
	g.regKey(kd, "(Array Int (Array "+ks+" Bool))", "mdom")
	g.regKeyT(kv, "(Array Int (Array "+ks+" "+vs+"))", "mval", m.Elem())
	return kd, kv
}

func keyConst(k string) string { return "|" + strings.ReplaceAll(k, "|", "!") }

// get reads a key from the state; unknown keys (pass 1 discovery) get a lazily
// declared entry constant.
func (g *Gen) get(s *State, k string) string {
	if v, ok := s.m[k]; ok {
		return v
	}
	ki, ok := g.keys[k]
	if !ok {
		panic("unregistered key " + k)
	}
	// discovery pass: the value is the entry constant (imprecise after havoc; pass 2 is exact)
	name := keyConst(k) + "@0|"
	if !g.declared[name] {
		g.declared[name] = true
		g.emit(fmt.Sprintf("(declare-const %s %s)", name, ki.sort))
		if k != "$alloc" {
			g.heapBound(k, name, "|$alloc@0|")
		}
	}
	s.m[k] = name
	return name
}

func (g *Gen) set(s *State, k, term string) {
	ki := g.keys[k]
	s.m[k] = g.def("st."+k, ki.sort, term)
	for _, l := range g.curLoops {
		if g.loopMods[l] == nil {
			g.loopMods[l] = map[string]bool{}
		}
		g.loopMods[l][k] = true
	}
}

func (g *Gen) initialState() *State {
	s := &State{m: map[string]string{}}
	for _, k := range g.keyOrder {
		g.get(s, k)
	}
	return s
}

func (g *Gen) havocKey(s *State, k string, why string) {
	ki := g.keys[k]
	g.set(s, k, g.fresh("hv."+k, ki.sort))
	if k == "$alloc" {
		return
	}
}

func (g *Gen) havocAll(s *State, why string) { g.havocAllExcept(s, why, nil) }

// havocAllExcept: everything but the keys in skip is arbitrary afterwards.  Enclosing loops are marked as
// modifying everything except what the root function declares private (g.privSkip).
func (g *Gen) havocAllExcept(s *State, why string, skip map[string]bool) {
	old := g.get(s, "$alloc")
	for _, k := range g.keyOrder {
		ki := g.keys[k]
		if ki.kind == "visited" || ki.kind == "stable" || ki.kind == "lockstate" || skip[k] {
			continue
		}
		g.havocKey(s, k, why)
	}
	for _, l := range g.curLoops {
		if len(skip) == 0 {
			g.loopAll[l] = true
		} else {
			// everything except the skipped keys: record the keys one by one (done by havocKey -> set) and
			// remember that keys discovered later are modified too
			if g.loopAllBut == nil {
				g.loopAllBut = map[string]map[string]bool{}
			}
			if g.loopAllBut[l] == nil {
				g.loopAllBut[l] = skip
			} else {
				// intersection of the skip sets
				n := map[string]bool{}
				for k := range g.loopAllBut[l] {
					if skip[k] {
						n[k] = true
					}
				}
				g.loopAllBut[l] = n
			}
		}
	}
	// allocation counter only grows
	g.assumeRaw(fmt.Sprintf("(<= %s %s)", old, g.get(s, "$alloc")))
	for _, k := range g.keyOrder {
		if g.keys[k].hasRef() {
			g.heapBound(k, g.get(s, k), g.get(s, "$alloc"))
		}
	}
}

func (g *Gen) assumeRaw(term string) {
	g.seq++
	g.assumps = append(g.assumps, Assump{g.seq, term, "", g.curBlk})
}

// mergeStates builds the ite-merge of predecessor states.
func (g *Gen) mergeStates(conds []string, states []*State) *State {
	if len(states) == 1 {
		return states[0].clone()
	}
	out := &State{m: map[string]string{}}
	for _, k := range g.keyOrder {
		first := g.get(states[0], k)
		same := true
		for _, s := range states[1:] {
			if g.get(s, k) != first {
				same = false
				break
			}
		}
		if same {
			out.m[k] = first
			continue
		}
		t := g.get(states[len(states)-1], k)
		for i := len(states) - 2; i >= 0; i-- {
			t = fmt.Sprintf("(ite %s %s %s)", conds[i], g.get(states[i], k), t)
		}
		out.m[k] = g.def("mg."+k, g.keys[k].sort, t)
	}
	return out
}

func mergeVals(g *Gen, conds []string, vals []string, sort string) string {
	first := vals[0]
	same := true
	for _, v := range vals[1:] {
		if v != first {
			same = false
		}
	}
	if same {
		return first
	}
	t := vals[len(vals)-1]
	for i := len(vals) - 2; i >= 0; i-- {
		t = fmt.Sprintf("(ite %s %s %s)", conds[i], vals[i], t)
	}
	return g.def("phi", sort, t)
}

func or(ts []string) string {
	if len(ts) == 0 {
		return "false"
	}
	if len(ts) == 1 {
		return ts[0]
	}
	return "(or " + strings.Join(ts, " ") + ")"
}

func and(ts []string) string {
	var f []string
	for _, t := range ts {
		if t != "true" && t != "" {
			f = append(f, t)
		}
	}
	if len(f) == 0 {
		return "true"
	}
	if len(f) == 1 {
		return f[0]
	}
	return "(and " + strings.Join(f, " ") + ")"
}

// ---------------------------------------------------------------------------
// Function instance context

type Loc struct {
	kind string // field elem cell
	obj  string // object ref / array ref / cell ref
	T    types.Type
	fld  int
	idx  string
	elem types.Type // root value type
	path []pathStep
}

type pathStep struct {
	T   types.Type // struct type (value)
	fld int
	arr bool   // index into a value array
	idx string // when arr
}

type deferRec struct {
	instr  *ssa.Defer
	cond   string // reach of the block where it was registered
	args   []Val
	callee Val
}

type closureInfo struct {
	fn       *ssa.Function
	bindings []Val
	cells    []ssa.Value // the captured variables (ssa bindings)
}

type retRec struct {
	reach   string
	state   *State
	results []Val
	blk     int
}

type FnCtx struct {
	g              *Gen
	fn             *ssa.Function
	c              *Contract
	prefix         string
	depth          int
	vals           map[ssa.Value]Val
	locs           map[ssa.Value]*Loc
	closures       map[ssa.Value]*closureInfo
	reach          map[*ssa.BasicBlock]string
	exit           map[*ssa.BasicBlock]*State
	edge           map[[2]int]string
	cur            *State
	curReach       string
	curBlock       *ssa.BasicBlock
	entry          *State
	defers         []deferRec
	rets           []retRec
	params         map[string]Val
	inlined        bool
	backEdge       map[[2]int]bool
	headers        map[*ssa.BasicBlock]int // header -> loop ordinal (1-based, block order)
	loopsOf        map[*ssa.BasicBlock][]string
	loopPre        map[*ssa.BasicBlock]*State // state in which each loop was entered
	afterCall      map[string]*State          // state in which the first call of a callee (by short name) returned
	afterCallBlock map[string]*ssa.BasicBlock
	afterCallReach map[string]string // path condition under which that call is reached
	debugDefBlock  map[string]*ssa.BasicBlock // block of the instruction a source-level local name is currently bound to
	usedLocals     map[string]bool            // source-level local names resolved while a step clause is translated
	iterPre        map[*ssa.BasicBlock]*State // state at the start of the iteration (after the loop-head havoc)
	hdrVars        map[*ssa.BasicBlock]map[string]Val
	noPanic        bool
	iters          map[ssa.Value]*iterInfo
	parent         *FnCtx
	recvName       string
	named          map[string]*ssa.Alloc
	lastVars       map[string]Val
	preVals        map[ssa.Value]Val
	callContracts  map[ssa.Instruction]*Contract
	funcVals       []funcVal
	privCells      []privCell
	privDone       bool
	privKeys       map[string]bool
	privKeysDone   bool
	assertDone     bool
	calleeFn       *ssa.Function // the function whose contract is being applied (resolved closures included)
	pendingClosure *closureInfo  // closure whose contract is being applied (its free variables are bound by name)
	debugNames     map[string]Val
	synthN         int
	rangeN         int
	lockSnap       map[string]*State
	pendingResults []Val
}

type iterInfo struct {
	isMap      bool
	m          Val
	visKey     string
	mt         *types.Map
	domAtStart string
	cntKey     string
	str        bool
}

func (fc *FnCtx) name(v ssa.Value) string {
	return fc.prefix + v.Name()
}

func (fc *FnCtx) assume(term string, why string) {
	g := fc.g
	g.seq++
	g.assumps = append(g.assumps, Assump{g.seq, fmt.Sprintf("(=> %s %s)", fc.curReach, term), why, g.curBlk})
}

func (fc *FnCtx) oblige(kind, detail string, pos token.Pos, goal string, clause string, label string) *Oblig {
	g := fc.g
	g.seq++
	p := fc.g.ld.fset.Position(pos)
	fnName := relFuncName(fc.fn)
	name := fmt.Sprintf("%s#%s", relFuncName(g.rootFn), kind)
	if fc.fn != g.rootFn {
		name += "<" + fnName + ">"
	}
	if detail != "" {
		name += "(" + detail + ")"
	} else {
		g.ordinals[name]++
		name += fmt.Sprintf(".%d", g.ordinals[name])
	}
	if label != "" {
		name += "[" + label + "]"
	}
	if g.obNames[name] > 0 {
		g.obNames[name]++
		name += fmt.Sprintf("~%d", g.obNames[name])
	} else {
		g.obNames[name] = 1
	}
	o := &Oblig{Name: name, Kind: kind, Func: fnName, Pos: p, seq: g.seq, reach: fc.curReach, goal: goal, Clause: clause, Label: label, blk: g.curBlk}
	g.obligs = append(g.obligs, o)
	return o
}

func relFuncName(f *ssa.Function) string {
	s := f.String()
	if f.Pkg != nil {
		s = strings.ReplaceAll(s, f.Pkg.Pkg.Path()+".", "")
	} else if f.Parent() != nil && f.Parent().Pkg != nil {
		s = strings.ReplaceAll(s, f.Parent().Pkg.Pkg.Path()+".", "")
	}
	return s
}

// ---------------------------------------------------------------------------
// CFG analysis: back edges, loop bodies.

func (fc *FnCtx) analyzeCFG() []*ssa.BasicBlock {
	fn := fc.fn
	fc.backEdge = map[[2]int]bool{}
	fc.headers = map[*ssa.BasicBlock]int{}
	fc.loopsOf = map[*ssa.BasicBlock][]string{}
	color := map[*ssa.BasicBlock]int{}
	var post []*ssa.BasicBlock
	var dfs func(b *ssa.BasicBlock)
	dfs = func(b *ssa.BasicBlock) {
		color[b] = 1
		for _, s := range b.Succs {
			if color[s] == 1 {
				fc.backEdge[[2]int{b.Index, s.Index}] = true
			} else if color[s] == 0 {
				dfs(s)
			}
		}
		color[b] = 2
		post = append(post, b)
	}
	dfs(fn.Blocks[0])
	var rpo []*ssa.BasicBlock
	for i := len(post) - 1; i >= 0; i-- {
		rpo = append(rpo, post[i])
	}
	// loop headers numbered in block-index order
	var hs []*ssa.BasicBlock
	seen := map[*ssa.BasicBlock]bool{}
	for e := range fc.backEdge {
		h := fn.Blocks[e[1]]
		if !seen[h] {
			seen[h] = true
			hs = append(hs, h)
		}
	}
	sort.Slice(hs, func(i, j int) bool { return hs[i].Index < hs[j].Index })
	for i, h := range hs {
		fc.headers[h] = i + 1
	}
	// natural loop bodies
	for _, h := range hs {
		body := map[*ssa.BasicBlock]bool{h: true}
		var stack []*ssa.BasicBlock
		for e := range fc.backEdge {
			if e[1] == h.Index {
				src := fn.Blocks[e[0]]
				if !body[src] {
					body[src] = true
					stack = append(stack, src)
				}
			}
		}
		for len(stack) > 0 {
			b := stack[len(stack)-1]
			stack = stack[:len(stack)-1]
			for _, p := range b.Preds {
				if !body[p] {
					body[p] = true
					stack = append(stack, p)
				}
			}
		}
		id := fc.loopID(h)
		for b := range body {
			fc.loopsOf[b] = append(fc.loopsOf[b], id)
		}
	}
	return rpo
}

func (fc *FnCtx) loopID(h *ssa.BasicBlock) string {
	return fmt.Sprintf("%s%s#L%d", fc.prefix, relFuncName(fc.fn), fc.headers[h])
}

type privCell struct {
	v   ssa.Value
	ref string
	T   types.Type
}

// privateCells: memory cells of local / captured variables whose address never leaves this function
// (not passed to a call, not stored in memory, not returned): code outside cannot modify them.
func (fc *FnCtx) privateCells() []privCell {
	if fc.privDone {
		return fc.privCells
	}
	fc.privDone = true
	escapes := map[ssa.Value]bool{}
	mark := func(v ssa.Value) {
		for {
			switch x := v.(type) {
			case *ssa.MakeInterface:
				v = x.X
				continue
			case *ssa.ChangeType:
				v = x.X
				continue
			}
			break
		}
		escapes[v] = true
	}
	for _, b := range fc.fn.Blocks {
		for _, ins := range b.Instrs {
			switch x := ins.(type) {
			case *ssa.Call:
				for _, a := range x.Call.Args {
					mark(a)
				}
			case *ssa.Defer:
				for _, a := range x.Call.Args {
					mark(a)
				}
			case *ssa.Go:
				for _, a := range x.Call.Args {
					mark(a)
				}
			case *ssa.Store:
				mark(x.Val)
			case *ssa.Return:
				for _, r := range x.Results {
					mark(r)
				}
			case *ssa.MapUpdate:
				mark(x.Value)
			case *ssa.Send:
				mark(x.X)
			}
		}
	}
	add := func(v ssa.Value) {
		if escapes[v] {
			return
		}
		pt, ok := v.Type().Underlying().(*types.Pointer)
		if !ok {
			return
		}
		switch pt.Elem().Underlying().(type) {
		case *types.Struct, *types.Array:
			return
		}
		fc.privCells = append(fc.privCells, privCell{v: v, T: pt.Elem()})
	}
	for _, fv := range fc.fn.FreeVars {
		add(fv)
	}
	// local variables that live in memory because a closure captures them: private as long as the capturing
	// closures are only handed to callees whose bodies the generator sees (inlined contracts, retry.Do, Once.Do,
	// sort.Slice, Range) or are called / deferred directly
	for _, b := range fc.fn.Blocks {
		for _, ins := range b.Instrs {
			al, ok := ins.(*ssa.Alloc)
			if !ok || escapes[al] {
				continue
			}
			if fc.g.cellStaysLocal(al, 0) {
				add(al)
			} else if os.Getenv("GOVC_DEBUG") != "" {
				fmt.Fprintf(os.Stderr, "cell %s (%s) does not stay local\n", al.Name(), al.Comment)
			}
		}
	}
	return fc.privCells
}

// restorePrivate puts the contents of private cells back after a havoc.
func (fc *FnCtx) restorePrivate(before *State) {
	g := fc.g
	for c := fc; c != nil; c = c.parent {
		for _, pc := range c.privateCells() {
			val, ok := c.vals[pc.v]
			if !ok {
				continue // not allocated yet on this path
			}
			pc.ref = val.t
			k := g.cellKey(pc.T)
			if g.get(before, k) == g.get(fc.cur, k) {
				continue
			}
			fc.cur.m[k] = g.def("st."+k, g.keys[k].sort, fmt.Sprintf("(store %s %s (select %s %s))", g.get(fc.cur, k), pc.ref, g.get(before, k), pc.ref))
		}
	}
}

// cellStaysLocal: every use of the cell address v is a load, a store into it, or a capture by a closure that is
// itself only called directly, deferred, or passed to a callee whose body is analysed at the call site.
func (g *Gen) cellStaysLocal(v ssa.Value, depth int) bool {
	if depth > 4 {
		return false
	}
	refs := v.Referrers()
	if refs == nil {
		return true
	}
	for _, r := range *refs {
		switch x := r.(type) {
		case *ssa.UnOp:
			if x.X != v {
				return false
			}
		case *ssa.Store:
			if x.Addr != v || x.Val == v {
				return false
			}
		case *ssa.DebugRef:
		case *ssa.MakeClosure:
			fn, ok := x.Fn.(*ssa.Function)
			if !ok {
				return false
			}
			for i, b := range x.Bindings {
				if b == v && (i >= len(fn.FreeVars) || !g.cellStaysLocal(fn.FreeVars[i], depth+1)) {
					return false
				}
			}
			if !g.closureStaysLocal(x) {
				return false
			}
		default:
			return false
		}
	}
	return true
}

func (g *Gen) closureStaysLocal(mc *ssa.MakeClosure) bool {
	refs := mc.Referrers()
	if refs == nil {
		return true
	}
	for _, r := range *refs {
		switch x := r.(type) {
		case *ssa.DebugRef:
		case *ssa.Call, *ssa.Defer:
			cc := callCommonOf(x)
			if cc.Value == ssa.Value(mc) {
				continue // called or deferred directly
			}
			sc := cc.StaticCallee()
			if sc == nil {
				return false
			}
			switch sc.String() {
			case "github.com/milvus-io/milvus/pkg/util/retry.Do", "(*sync.Once).Do", "sort.Slice", "sort.SliceStable":
				continue
			}
			if c := g.findContract(sc); c != nil && c.Inline && sc.Blocks != nil {
				continue
			}
			return false
		default:
			return false
		}
	}
	return true
}

func (ki KeyInfo) hasRef() bool { return ki.ref != "" || len(ki.sub) > 0 }

// funcID: a stable small integer per function name (identity of function values)
func (g *Gen) funcID(name string) int {
	k := "|fn!" + sanitize(shortPkg(name)) + "|"
	if _, ok := g.funcIDs[k]; !ok {
		g.funcIDs[k] = 1000 + len(g.funcIDs)
	}
	return g.funcIDs[k]
}
