package main

import (
	"fmt"
	"go/token"
	"go/types"
	"os"
	"strconv"
	"strings"
	"unicode/utf8"

	"golang.org/x/tools/go/ssa"
)

// genBody generates the VC for the body of fc.fn starting in state `in` under reach `reachIn`.
// It fills fc.rets with one record per return.
func (fc *FnCtx) genBody(in *State, reachIn string) {
	g := fc.g
	fc.vals = map[ssa.Value]Val{}
	for k, v := range fc.preVals {
		fc.vals[k] = v
	}
	fc.locs = map[ssa.Value]*Loc{}
	if fc.closures == nil {
		fc.closures = map[ssa.Value]*closureInfo{}
	}
	fc.reach = map[*ssa.BasicBlock]string{}
	fc.exit = map[*ssa.BasicBlock]*State{}
	fc.edge = map[[2]int]string{}
	fc.hdrVars = map[*ssa.BasicBlock]map[string]Val{}
	fc.iters = map[ssa.Value]*iterInfo{}
	fc.named = map[string]*ssa.Alloc{}
	if fc.lockSnap == nil {
		fc.lockSnap = map[string]*State{}
		if fc.parent != nil {
			fc.lockSnap = fc.parent.lockSnap
		}
	}
	rpo := fc.analyzeCFG()
	savedLoops := g.curLoops
	isRoot := fc.parent == nil && !fc.inlined
	if isRoot {
		// forward reachability between blocks (back edges cut): used to leave out of an obligation's query the
		// assumptions made in blocks that cannot reach it (solve.go)
		g.rootReach = map[int]map[int]bool{}
		for i := len(rpo) - 1; i >= 0; i-- {
			b := rpo[i]
			r := map[int]bool{b.Index: true}
			for _, s := range b.Succs {
				if fc.backEdge[[2]int{b.Index, s.Index}] {
					continue
				}
				for x := range g.rootReach[s.Index] {
					r[x] = true
				}
			}
			g.rootReach[b.Index] = r
		}
	}

	for _, b := range rpo {
		fc.curBlock = b
		if isRoot {
			g.curBlk = b.Index
		}
		g.curLoops = append(append([]string{}, savedLoops...), fc.loopsOf[b]...)
		// incoming forward edges
		var conds []string
		var states []*State
		var preds []*ssa.BasicBlock
		for _, p := range b.Preds {
			if fc.backEdge[[2]int{p.Index, b.Index}] {
				continue
			}
			ec, ok := fc.edge[[2]int{p.Index, b.Index}]
			if !ok {
				continue // predecessor unreachable from entry
			}
			conds = append(conds, ec)
			states = append(states, fc.exit[p])
			preds = append(preds, p)
		}
		if b.Index == 0 {
			fc.curReach = reachIn
			fc.cur = in.clone()
		} else {
			if len(preds) == 0 {
				continue
			}
			fc.curReach = g.def(fc.prefix+"reach.b"+fmt.Sprint(b.Index), "Bool", or(conds))
			fc.cur = g.mergeStates(conds, states)
		}
		fc.reach[b] = fc.curReach

		_, isHeader := fc.headers[b]
		// phis
		phiEntry := map[*ssa.Phi]string{}
		for _, ins := range b.Instrs {
			phi, ok := ins.(*ssa.Phi)
			if !ok {
				break
			}
			var vs []string
			for _, p := range preds {
				for i, pp := range b.Preds {
					if pp == p {
						vs = append(vs, fc.term(phi.Edges[i]).t)
						break
					}
				}
			}
			t := mergeVals(g, conds, vs, g.sortOf(phi.Type()))
			phiEntry[phi] = t
			fc.vals[phi] = Val{t: t, ty: phi.Type()}
			// a variable merged at a join is known to contracts by its source name from here on
			if phi.Comment != "" && phi.Comment != "rangeindex" && token.IsIdentifier(phi.Comment) {
				if fc.debugNames == nil {
					fc.debugNames = map[string]Val{}
				}
				fc.debugNames[phi.Comment] = Val{t: t, ty: phi.Type()}
			}
			// propagate closure identity / locs through trivial phis
		}
		if isHeader {
			fc.loopHeader(b, phiEntry)
		}
		for _, ins := range b.Instrs {
			if _, ok := ins.(*ssa.Phi); ok {
				continue
			}
			if isRoot && os.Getenv("GOVC_ASSERT") != "" {
				// debugging aid: GOVC_ASSERT="LINE: expr" adds an obligation before the first instruction of that line
				spec := os.Getenv("GOVC_ASSERT")
				if i := strings.Index(spec, ":"); i > 0 {
					ln, _ := strconv.Atoi(strings.TrimSpace(spec[:i]))
					if p := g.ld.fset.Position(posOf(ins)); p.Line == ln && !fc.assertDone {
						fc.assertDone = true
						n, err := parseCExpr(strings.TrimSpace(spec[i+1:]))
						if err != nil {
							panic(err)
						}
						env := fc.envAt(fc.cur, fc.debugNames)
						fc.oblige("assert", fmt.Sprint(ln), posOf(ins), env.boolExpr(n), spec, "")
					}
				}
			}
			fc.instr(ins)
			if isRoot && os.Getenv("GOVC_PROBE") != "" {
				// debugging aid: an obligation `false` after every call of the root function; one that is
				// *proved* shows that the assumptions made so far are contradictory on this path
				if _, isCall := ins.(*ssa.Call); isCall && (os.Getenv("GOVC_PROBE") == "1" || os.Getenv("GOVC_PROBE") == fmt.Sprint(b.Index)) {
					fc.oblige("probe", fmt.Sprintf("b%d:%s", b.Index, fc.posStr(ins)), posOf(ins), "false", "", "")
				}
			}
		}
		fc.exit[b] = fc.cur
		// back edges leaving this block: inv-step
		for _, s := range b.Succs {
			if fc.backEdge[[2]int{b.Index, s.Index}] {
				fc.loopStep(b, s)
			}
		}
	}
	g.curLoops = savedLoops
}

func (fc *FnCtx) setEdges(b *ssa.BasicBlock) {
	g := fc.g
	switch last := b.Instrs[len(b.Instrs)-1].(type) {
	case *ssa.If:
		c := fc.term(last.Cond).t
		t := g.def(fc.prefix+"edge", "Bool", fmt.Sprintf("(and %s %s)", fc.curReach, c))
		f := g.def(fc.prefix+"edge", "Bool", fmt.Sprintf("(and %s (not %s))", fc.curReach, c))
		fc.edge[[2]int{b.Index, b.Succs[0].Index}] = t
		if b.Succs[1] == b.Succs[0] {
			fc.edge[[2]int{b.Index, b.Succs[0].Index}] = fc.curReach
		} else {
			fc.edge[[2]int{b.Index, b.Succs[1].Index}] = f
		}
	case *ssa.Jump:
		fc.edge[[2]int{b.Index, b.Succs[0].Index}] = fc.curReach
	}
}

// loop handling -------------------------------------------------------------

// loopVisKey finds the visited-set key of the map iteration driving loop h.
func (fc *FnCtx) loopVisKey(h *ssa.BasicBlock) string {
	id := fc.loopID(h)
	for _, b := range fc.fn.Blocks {
		in := false
		for _, l := range fc.loopsOf[b] {
			if l == id {
				in = true
			}
		}
		if !in {
			continue
		}
		for _, ins := range b.Instrs {
			if nx, ok := ins.(*ssa.Next); ok {
				if it := fc.iters[nx.Iter]; it != nil && it.isMap {
					return it.visKey
				}
			}
		}
	}
	return ""
}

func (fc *FnCtx) loopSpec(h *ssa.BasicBlock) *LoopSpec {
	if fc.c == nil {
		return nil
	}
	return fc.c.Loops[fc.headers[h]]
}

func (fc *FnCtx) headerVars(h *ssa.BasicBlock, phiVals map[*ssa.Phi]string) map[string]Val {
	m := map[string]Val{}
	for _, ins := range h.Instrs {
		phi, ok := ins.(*ssa.Phi)
		if !ok {
			break
		}
		v := Val{t: phiVals[phi], ty: phi.Type()}
		if phi.Comment != "" {
			m[phi.Comment] = v
		}
		m[phi.Name()] = v
	}
	// the index of the (innermost) enclosing range loop is visible as `outerindex`
	own := fc.loopID(h)
	best := -1
	for h2 := range fc.headers {
		if h2 == h || h2.Index > h.Index || h2.Index < best {
			continue
		}
		encl := false
		for _, l := range fc.loopsOf[h] {
			if l == fc.loopID(h2) && l != own {
				encl = true
			}
		}
		if !encl {
			continue
		}
		for _, ins := range h2.Instrs {
			phi, ok := ins.(*ssa.Phi)
			if !ok {
				break
			}
			if phi.Comment == "rangeindex" {
				if v, ok := fc.vals[phi]; ok {
					m["outerindex"] = v
					best = h2.Index
				}
			}
		}
	}
	return m
}

func (fc *FnCtx) loopHeader(h *ssa.BasicBlock, phiEntry map[*ssa.Phi]string) {
	g := fc.g
	ls := fc.loopSpec(h)
	id := fc.loopID(h)
	n := fc.headers[h]
	preState := fc.cur
	// 1. invariant on entry
	if ls != nil {
		env := fc.envAt(preState, fc.headerVars(h, phiEntry))
		env.visKey = fc.loopVisKey(h)
		env.loopPre = preState
		env.iterPre = preState
		for i, inv := range ls.Invariants {
			t := env.boolExpr(inv.Expr)
			fc.oblige("inv-entry", fmt.Sprintf("L%d.%d", n, i+1), h.Instrs[0].Pos(), t, inv.Src, inv.Name)
		}
	}
	// 2. havoc loop-modified state
	st := preState.clone()
	{
		old := g.get(st, "$alloc")
		mod := g.loopHavocs(id)
		for _, k := range g.keyOrder {
			if g.keys[k].kind == "stable" || !mod(k) {
				continue
			}
			st.m[k] = g.fresh("lp."+k, g.keys[k].sort)
		}
		if mod("$alloc") {
			g.assumeRaw(fmt.Sprintf("(<= %s %s)", old, g.get(st, "$alloc")))
		}
		for _, k := range g.keyOrder {
			if mod(k) && g.keys[k].hasRef() && g.keys[k].kind != "stable" {
				g.heapBound(k, g.get(st, k), g.get(st, "$alloc"))
			}
		}
	}
	fc.cur = st
	phiNew := map[*ssa.Phi]string{}
	for _, ins := range h.Instrs {
		phi, ok := ins.(*ssa.Phi)
		if !ok {
			break
		}
		t := g.fresh(fc.prefix+"lp."+phi.Name(), g.sortOf(phi.Type()))
		phiNew[phi] = t
		fc.vals[phi] = Val{t: t, ty: phi.Type()}
		if rc := g.sorts.rangeConstraint(phi.Type(), t); rc != "" {
			fc.assume(rc, "range")
		}
		// references held in local variables at the loop head are allocated (a later allocation cannot alias them)
		fc.boundRefs(phi.Type(), t)
		if phi.Comment == "rangeindex" {
			// compiler-generated index of a range loop: starts at -1 and only increments
			fc.assume(fmt.Sprintf("(and (>= %s (- 1)) (< %s 9223372036854775807))", t, t), "rangeindex in [-1, len)")
			// the index only advances while index+1 < len (len evaluated once before the loop)
			for _, ins2 := range h.Instrs {
				add, ok := ins2.(*ssa.BinOp)
				if !ok || add.Op != token.ADD || add.X != ssa.Value(phi) {
					continue
				}
				for _, ins3 := range h.Instrs {
					lt, ok := ins3.(*ssa.BinOp)
					if ok && lt.Op == token.LSS && lt.X == ssa.Value(add) {
						if lv, ok := fc.vals[lt.Y]; ok {
							fc.assume(fmt.Sprintf("(< %s %s)", t, lv.t), "rangeindex < len")
						}
					}
				}
			}
		}
	}
	hv := fc.headerVars(h, phiNew)
	fc.hdrVars[h] = hv
	// 3. assume invariant
	if ls != nil {
		env := fc.envAt(fc.cur, hv)
		env.oldState = fc.entry
		env.visKey = fc.loopVisKey(h)
		env.loopPre = preState
		if fc.loopPre == nil {
			fc.loopPre = map[*ssa.BasicBlock]*State{}
		}
		fc.loopPre[h] = preState
		env.iterPre = fc.cur
		if fc.iterPre == nil {
			fc.iterPre = map[*ssa.BasicBlock]*State{}
		}
		fc.iterPre[h] = fc.cur.clone()
		for _, inv := range ls.Invariants {
			fc.assume(env.boolExpr(inv.Expr), "loop invariant "+inv.Src)
		}
	}
}

func (fc *FnCtx) loopStep(b, h *ssa.BasicBlock) {
	ls := fc.loopSpec(h)
	n := fc.headers[h]
	// values flowing along the back edge
	phiBack := map[*ssa.Phi]string{}
	idx := -1
	for i, p := range h.Preds {
		if p == b {
			idx = i
		}
	}
	for _, ins := range h.Instrs {
		phi, ok := ins.(*ssa.Phi)
		if !ok {
			break
		}
		phiBack[phi] = fc.term(phi.Edges[idx]).t
	}
	// reach of the back edge
	saved := fc.curReach
	if ec, ok := fc.edge[[2]int{b.Index, h.Index}]; ok {
		fc.curReach = ec
	}
	if ls != nil {
		env := fc.envAt(fc.cur, fc.headerVars(h, phiBack))
		env.visKey = fc.loopVisKey(h)
		env.loopPre = fc.loopPre[h]
		env.iterPre = fc.iterPre[h]
		env.iterVars = fc.hdrVars[h]
		for i, inv := range ls.Invariants {
			t := env.boolExpr(inv.Expr)
			fc.oblige("inv-step", fmt.Sprintf("L%d.%d", n, i+1), lastPos(b), t, inv.Src, inv.Name)
		}
		// per-iteration claims (`loop N step`): what one pass through the body has done, stated over prev() and the
		// body's own variables.  Checked here only; on a back edge that leaves the body before one of the named
		// variables exists the claim does not apply.
		for i, st := range ls.Steps {
			func() {
				defer func() {
					if r := recover(); r != nil {
						if ce, ok := r.(cxError); ok && strings.Contains(ce.msg, "unknown identifier") {
							fc.g.note("loop step clause [" + st.Name + "] does not apply on the back edge at " + fc.g.ld.fset.Position(lastPos(b)).String() + ": " + ce.msg)
							return
						}
						panic(r)
					}
				}()
				fc.usedLocals = map[string]bool{}
				t := env.boolExpr(st.Expr)
				used := fc.usedLocals
				fc.usedLocals = nil
				for nm := range used {
					if db := fc.debugDefBlock[nm]; db != nil && db != b && !db.Dominates(b) {
						fc.g.note("loop step clause [" + st.Name + "] does not apply on the back edge at " + fc.g.ld.fset.Position(lastPos(b)).String() + ": " + nm + " is not defined on that path")
						return
					}
				}
				fc.oblige("inv-step", fmt.Sprintf("L%d.s%d", n, i+1), lastPos(b), t, st.Src, st.Name)
			}()
		}
		if ls.Decreases != nil {
			envOld := fc.envAt(fc.exitOrCur(h), fc.hdrVars[h])
			o := envOld.expr(ls.Decreases.Expr)
			nw := env.expr(ls.Decreases.Expr)
			fc.oblige("dec", fmt.Sprintf("L%d", n), b.Instrs[len(b.Instrs)-1].Pos(),
				fmt.Sprintf("(and (<= 0 %s) (< %s %s))", o.t, nw.t, o.t), ls.Decreases.Src, "")
		}
	}
	fc.curReach = saved
}

func (fc *FnCtx) exitOrCur(h *ssa.BasicBlock) *State {
	// state at header after havoc: we do not store it separately; header-entry state is
	// recoverable only approximately, so decreases clauses should mention header variables only.
	return fc.cur
}

// ---------------------------------------------------------------------------

func posOf(ins ssa.Instruction) token.Pos {
	if p := ins.Pos(); p != token.NoPos {
		return p
	}
	if ins.Block() != nil {
		for _, i := range ins.Block().Instrs {
			if i.Pos() != token.NoPos {
				return i.Pos()
			}
		}
	}
	if ins.Parent() != nil {
		return ins.Parent().Pos()
	}
	return token.NoPos
}

// term returns the SMT value of an operand.
func (fc *FnCtx) term(v ssa.Value) Val {
	g := fc.g
	if x, ok := fc.vals[v]; ok {
		return x
	}
	switch c := v.(type) {
	case *ssa.Const:
		return fc.constVal(c)
	case *ssa.Global:
		name := "|g!" + sanitize(shortPkg(c.String())) + "|"
		if !g.declared[name] {
			g.declared[name] = true
			g.emit(fmt.Sprintf("(declare-const %s Int)", name))
			// globals are distinct pre-allocated objects
			id := len(g.globals) + 1
			g.globals[name] = name
			g.emit(fmt.Sprintf("(assert (= %s %d))", name, id))
		}
		x := Val{t: name, ty: c.Type()}
		if fc.vals != nil {
			fc.vals[v] = x
		}
		return x
	case *ssa.Function:
		name := "|fn!" + sanitize(shortPkg(c.String())) + "|"
		if !g.declared[name] {
			g.declared[name] = true
			if _, ok := g.funcIDs[name]; !ok {
				g.funcIDs[name] = 1000 + len(g.funcIDs)
			}
			g.emit(fmt.Sprintf("(define-fun %s () Int %d)", name, g.funcIDs[name]))
		}
		x := Val{t: name, ty: c.Type()}
		fc.vals[v] = x
		fc.closures[v] = &closureInfo{fn: c}
		return x
	case *ssa.Builtin:
		return Val{t: "0", ty: c.Type()}
	case *ssa.FreeVar, *ssa.Parameter:
		panic(fmt.Sprintf("unbound %T %s in %s", v, v.Name(), fc.fn))
	}
	panic(fmt.Sprintf("value %s (%T) used before definition in %s", v.Name(), v, fc.fn))
}

func (fc *FnCtx) constVal(c *ssa.Const) Val {
	g := fc.g
	t := c.Type()
	if c.Value == nil {
		return Val{t: g.sorts.zero(t), ty: t}
	}
	switch u := t.Underlying().(type) {
	case *types.Basic:
		switch {
		case u.Info()&types.IsBoolean != 0:
			return Val{t: c.Value.String(), ty: t}
		case u.Info()&types.IsString != 0:
			s := c.Value.ExactString()
			var str string
			fmt.Sscanf(s, "%q", &str)
			// ExactString gives a quoted Go string
			if uq, err := unquoteGo(s); err == nil {
				str = uq
			}
			g.literalFacts(str)
			return Val{t: smtString(str), ty: t}
		case u.Info()&types.IsInteger != 0:
			s := c.Value.ExactString()
			if strings.HasPrefix(s, "-") {
				return Val{t: "(- " + s[1:] + ")", ty: t}
			}
			return Val{t: s, ty: t}
		case u.Info()&types.IsFloat != 0:
			s := c.Value.ExactString()
			if strings.Contains(s, "/") {
				p := strings.Split(s, "/")
				s = "(/ " + p[0] + ".0 " + p[1] + ".0)"
			} else if !strings.Contains(s, ".") {
				s += ".0"
			}
			if strings.HasPrefix(s, "-") {
				s = "(- " + s[1:] + ")"
			}
			return Val{t: s, ty: t}
		}
	}
	return Val{t: g.sorts.zero(t), ty: t}
}

func unquoteGo(s string) (string, error) {
	return strconvUnquote(s)
}

// lastPos: the source position of the last instruction of b that has one (jumps have none)
func lastPos(b *ssa.BasicBlock) token.Pos {
	for i := len(b.Instrs) - 1; i >= 0; i-- {
		if p := b.Instrs[i].Pos(); p != token.NoPos {
			return p
		}
	}
	return token.NoPos
}

// literalFacts: interpreted predicates evaluated on a string literal of the program.  utf8ok(s) ("s is valid UTF-8") is
// an uninterpreted predicate for the solver; for a literal the verifier evaluates it itself.
func (g *Gen) literalFacts(str string) {
	if _, ok := g.cs.UFuncs["utf8ok"]; !ok || !utf8.ValidString(str) {
		return
	}
	k := "utf8ok!" + str
	if g.declared[k] {
		return
	}
	g.declared[k] = true
	g.emit(fmt.Sprintf("(assert (|uf!utf8ok| %s))", smtString(str)))
}
