package main

import (
	"encoding/json"
	"flag"
	"fmt"
	"os"
	"path/filepath"
	"regexp"
	"sort"
	"strconv"
	"strings"
	"time"
)

// PropSpec: which module/packages hold the functions a property depends on.
type PropSpec struct {
	Loads []LoadSpec
}

type LoadSpec struct {
	Module   string   // relative to repo root
	Patterns []string // package patterns
}

var coreRW = LoadSpec{"core", []string{"./writer", "./reader", "./util", "./meta", "./api", "./model"}}
var serverAll = LoadSpec{"server", []string{".", "./store", "./msgpacker", "./metrics", "./model/request", "./model/meta", "./model", "./api"}}

var props = map[string]PropSpec{
	"C01": {[]LoadSpec{coreRW}},
	"C02": {[]LoadSpec{coreRW}},
	"C03": {[]LoadSpec{coreRW}},
	"C04": {[]LoadSpec{coreRW}},
	"C05": {[]LoadSpec{serverAll, coreRW}},
	"C06": {[]LoadSpec{coreRW, serverAll}},
	"C07": {[]LoadSpec{coreRW}},
	"C08": {[]LoadSpec{coreRW}},
	"C09": {[]LoadSpec{coreRW}},
	"C10": {[]LoadSpec{serverAll, coreRW}},
	"C11": {[]LoadSpec{serverAll, coreRW}},
	"C12": {[]LoadSpec{serverAll, coreRW}},
	"C13": {[]LoadSpec{coreRW}},
	"C14": {[]LoadSpec{serverAll, coreRW}},
	"C15": {[]LoadSpec{coreRW}},
	"C16": {[]LoadSpec{coreRW}},
	"C17": {[]LoadSpec{coreRW}},
	"C18": {[]LoadSpec{serverAll, coreRW}},
	"C19": {[]LoadSpec{serverAll, coreRW}},
	"C20": {[]LoadSpec{coreRW}},
}

type KnownFinding struct {
	Property      string `json:"property"`
	Status        string `json:"status"` // known | fixed
	Obligation    string `json:"obligation"`
	Discriminator string `json:"discriminator,omitempty"` // contract-language expr over the function's parameters
	What          string `json:"what"`
	Commit        string `json:"commit,omitempty"`
	Replay        string `json:"replay,omitempty"`
}

type ObligReport struct {
	Name    string   `json:"name"`
	Kind    string   `json:"kind"`
	Func    string   `json:"func"`
	Pos     string   `json:"pos"`
	Clause  string   `json:"clause,omitempty"`
	Status  string   `json:"status"`
	Solver  string   `json:"solver"`
	Secs    float64  `json:"secs"`
	SMTSize int      `json:"smt_bytes"`
	Tried   []string `json:"tried,omitempty"`
}

func main() {
	if len(os.Args) < 2 {
		fmt.Fprintln(os.Stderr, "usage: govc check|dump|replay ...")
		os.Exit(2)
	}
	switch os.Args[1] {
	case "check":
		os.Exit(cmdCheck(os.Args[2:]))
	case "dump":
		os.Exit(cmdDump(os.Args[2:]))
	case "replay":
		os.Exit(cmdReplay(os.Args[2:]))
	case "warm":
		os.Exit(cmdWarm(os.Args[2:]))
	}
	fmt.Fprintln(os.Stderr, "unknown command")
	os.Exit(2)
}

func cmdWarm(args []string) int {
	fs := flag.NewFlagSet("warm", flag.ExitOnError)
	repo := fs.String("repo", "/repo", "")
	fs.Parse(args)
	for _, ls := range []LoadSpec{coreRW, serverAll} {
		t0 := time.Now()
		_, err := loadModule(filepath.Join(*repo, ls.Module), ls.Patterns)
		if err != nil {
			fmt.Fprintln(os.Stderr, "warm load failed:", err)
			return 1
		}
		fmt.Printf("warm %s: %.1fs\n", ls.Module, time.Since(t0).Seconds())
	}
	return 0
}

type target struct {
	ld *Loader
	c  *Contract
	u  *Unit
}

var labelOrdinal = regexp.MustCompile(`#post\(\d+\)\[`)
var invOrdinal = regexp.MustCompile(`#(inv-entry|inv-step)\(([RL]\d+)\.s?\d+\)\[`)

func cmdCheck(args []string) int {
	fs := flag.NewFlagSet("check", flag.ExitOnError)
	prop := fs.String("prop", "", "property id")
	tier := fs.String("tier", "quick", "quick|thorough")
	repo := fs.String("repo", "/repo", "repository root")
	verif := fs.String("verif", "/verif", "verif root")
	updateExpect := fs.Bool("update-expect", false, "rewrite expect/<prop>.<tier>.obligations")
	only := fs.String("only", "", "only functions whose key contains this")
	keep := fs.Bool("keep", false, "keep SMT files")
	verbose := fs.Bool("v", false, "verbose")
	noEvidence := fs.Bool("no-evidence", false, "do not write evidence (selftest runs)")
	showNotes := fs.Bool("notes", false, "print abstraction notes per function")
	fs.Parse(args)
	repoRoot = *repo
	t0 := time.Now()
	seed, _ := strconv.Atoi(os.Getenv("VERIF_SEED"))
	ps, ok := props[*prop]
	if !ok {
		fmt.Fprintln(os.Stderr, "unknown property", *prop)
		return 2
	}
	cs := newContractSet()
	var loaders []*Loader
	loadSecs := 0.0
	for _, ls := range ps.Loads {
		tl := time.Now()
		ld, err := loadModule(filepath.Join(*repo, ls.Module), ls.Patterns)
		if err != nil {
			fmt.Fprintf(os.Stderr, "BROKEN-BUILD: %v\n", err)
			return 2
		}
		loadSecs += time.Since(tl).Seconds()
		ld.contracts(cs)
		loaders = append(loaders, ld)
	}
	if len(cs.Errors) > 0 {
		for _, e := range cs.Errors {
			fmt.Fprintln(os.Stderr, "BROKEN-CONTRACT:", e)
		}
		return 2
	}
	// select targets
	var targets []*target
	var keys []string
	for k := range cs.Funcs {
		keys = append(keys, k)
	}
	sort.Strings(keys)
	broken := false
	for _, k := range keys {
		c := cs.Funcs[k]
		if c.Trusted || !contains(c.Props, *prop) {
			continue
		}
		if *tier == "quick" && c.Tier != "quick" {
			continue
		}
		if *only != "" && !strings.Contains(c.Key, *only) {
			continue
		}
		var found *target
		for _, ld := range loaders {
			if fn, ok := ld.funcs[c.Pkg+"::"+c.Key]; ok {
				found = &target{ld: ld, c: c}
				_ = fn
				break
			}
		}
		if found == nil {
			fmt.Fprintf(os.Stderr, "BROKEN-CONTRACT: %s: function %s not found in %s\n", filepath.Base(c.File), c.Key, c.Pkg)
			broken = true
			continue
		}
		targets = append(targets, found)
	}
	if broken {
		return 2
	}
	if len(targets) == 0 {
		fmt.Fprintf(os.Stderr, "BROKEN: no functions under contract for %s\n", *prop)
		return 2
	}
	tg := time.Now()
	var jobs []*job
	for _, t := range targets {
		fn := t.ld.funcs[t.c.Pkg+"::"+t.c.Key]
		t.u = verifyFunction(t.ld, cs, fn, t.c)
		if t.u.Err != "" {
			fmt.Fprintf(os.Stderr, "BROKEN-CONTRACT: %s: %s\n", t.c.Key, t.u.Err)
			broken = true
			continue
		}
		for _, o := range t.u.Obligs {
			jobs = append(jobs, &job{u: t.u, o: o})
		}
		if *showNotes {
			for _, n := range t.u.Notes {
				fmt.Fprintf(os.Stderr, "NOTE %s: %s\n", t.c.Key, n)
			}
		}
	}
	// lemmas
	lemmaUnits := lemmaJobs(cs, loaders, *prop, &jobs, &broken)
	_ = lemmaUnits
	if broken {
		return 2
	}
	genSecs := time.Since(tg).Seconds()
	dir, _ := os.MkdirTemp("", "govc-"+*prop+"-")
	if !*keep {
		defer os.RemoveAll(dir)
	} else {
		fmt.Fprintln(os.Stderr, "SMT files in", dir)
	}
	// every claimed obligation discharges in a few seconds on an idle machine; the limits leave a wide margin for a
	// loaded one (an obligation that runs into the limit is reported as failed)
	timeout := 30 * time.Second
	if *tier == "thorough" {
		timeout = 120 * time.Second
	}
	ts := time.Now()
	solveAll(jobs, dir, timeout, 16)
	solveSecs := time.Since(ts).Seconds()

	// expected obligation list (vacuity guard against silently dropped obligations)
	var names []string
	for _, j := range jobs {
		names = append(names, j.o.Name)
	}
	sort.Strings(names)
	expectFile := filepath.Join(*verif, "expect", fmt.Sprintf("%s.%s.obligations", *prop, *tier))
	if *updateExpect && *only == "" {
		os.MkdirAll(filepath.Dir(expectFile), 0o755)
		os.WriteFile(expectFile, []byte(strings.Join(names, "\n")+"\n"), 0o644)
	}
	// only obligations that come from contract text (not from the shape of the code) are pinned
	pinned := func(n string) bool {
		for _, k := range []string{"#post", "lemma#", "#inv-entry", "#inv-step", "#lockinv"} {
			if strings.Contains(n, k) {
				return true
			}
		}
		return false
	}
	var pn []string
	for _, n := range names {
		if pinned(n) {
			pn = append(pn, n)
		}
	}
	names = pn
	if *updateExpect && *only == "" {
		os.WriteFile(expectFile, []byte(strings.Join(names, "\n")+"\n"), 0o644)
	}
	expectNote := ""
	if *only == "" {
		if b, err := os.ReadFile(expectFile); err == nil {
			want := strings.Split(strings.TrimSpace(string(b)), "\n")
			// a labelled clause is identified by its label, not by its position among the clauses
			norm := func(xs []string) []string {
				out := make([]string, len(xs))
				for i, x := range xs {
					out[i] = labelOrdinal.ReplaceAllString(x, "#post[")
					out[i] = invOrdinal.ReplaceAllString(out[i], "#$1($2)[")
				}
				return out
			}
			missing := diff(norm(want), norm(names))
			if len(missing) > 0 {
				// obligations that existed on the pinned tree are gone: report, they count as failed
				expectNote = fmt.Sprintf("%d expected obligations are no longer generated: %s", len(missing), strings.Join(missing, "; "))
			}
		} else {
			expectNote = "no expect file"
		}
	}

	known := loadKnown(filepath.Join(*verif, "known_findings.json"))
	var reports []ObligReport
	discharged, total, covers := 0, 0, 0
	violations := 0
	var violLines []string
	var knownLines []string
	vacuous := false
	var deadReturns []string
	var samples []any
	solverUse := map[string]int{}
	maxSecs := 0.0
	for _, j := range jobs {
		o, r := j.o, j.res
		rep := ObligReport{Name: o.Name, Kind: o.Kind, Func: o.Func, Pos: fmt.Sprintf("%s:%d", shortFile(o.Pos.Filename), o.Pos.Line), Clause: o.Clause,
			Status: r.Status, Solver: r.Solver, Secs: round2(r.Secs), SMTSize: r.Size, Tried: r.Tried}
		if r.Secs > maxSecs {
			maxSecs = r.Secs
		}
		if o.Kind == "cover" {
			covers++
			if r.Status == "unsat" {
				if strings.Contains(o.Name, "#cover(return@") && j.u.Contract != nil && contains(j.u.Contract.Unreachable, o.Name[strings.Index(o.Name, "#cover(")+7:len(o.Name)-1]) {
					// whitelisted dead return (e.g. after log.Panic)
				} else if strings.Contains(o.Name, "#cover(return@") {
					vacuous = true
					fmt.Fprintf(os.Stderr, "BROKEN: vacuity: %s (%s:%d) is unreachable under the contract's assumptions\n", o.Name, shortFile(o.Pos.Filename), o.Pos.Line)
					deadReturns = append(deadReturns, fmt.Sprintf("%s (%s:%d)", o.Name, shortFile(o.Pos.Filename), o.Pos.Line))
				} else {
					vacuous = true
					fmt.Fprintf(os.Stderr, "BROKEN: vacuity: %s is unreachable (contradictory precondition or assumption)\n", o.Name)
				}
			}
			rep.Status = "cover:" + r.Status
			reports = append(reports, rep)
			continue
		}
		total++
		solverUse[r.Solver]++
		if r.Status == "unsat" {
			discharged++
			reports = append(reports, rep)
			if len(samples) < 4 {
				samples = append(samples, map[string]any{"obligation": o.Name, "clause": o.Clause, "solver": r.Solver, "secs": round2(r.Secs), "smt_bytes": r.Size})
			}
			continue
		}
		// failed obligation
		kf := matchKnown(known, *prop, o.Name)
		if kf != nil {
			ok := true
			if kf.Discriminator != "" {
				// the obligation must hold outside the recorded finding
				ex, err := j.u.translateEntry(kf.Discriminator)
				if err != nil {
					fmt.Fprintf(os.Stderr, "BROKEN: known finding discriminator: %v\n", err)
					return 2
				}
				j2 := &job{u: j.u, o: o, extra: []string{"(not " + ex + ")"}}
				solveOne(j2, dir, timeout)
				rep.Tried = append(rep.Tried, "outside-finding:"+j2.res.Status)
				if j2.res.Status != "unsat" {
					ok = false
					r = j2.res
				} else {
					discharged++ // discriminator-excluded variant discharged
				}
			} else {
				total-- // not claimed: whole obligation is a recorded finding
			}
			if ok {
				knownLines = append(knownLines, fmt.Sprintf("KNOWN-FINDING: property=%s %s: %s", *prop, o.Name, kf.What))
				rep.Status = "known-finding"
				reports = append(reports, rep)
				continue
			}
		}
		violations++
		rp := writeReplay(*verif, *repo, *prop, j, r)
		line := fmt.Sprintf("VIOLATION property=%s replay=%s", *prop, rp.path)
		if !rp.confirmed {
			line += " no-failing-input-found"
		}
		violLines = append(violLines, line)
		fmt.Fprintf(os.Stderr, "FAILED %s [%s] %s\n   clause: %s\n   at %s\n", o.Name, r.Status, strings.Join(r.Tried, " "), o.Clause, rep.Pos)
		reports = append(reports, rep)
	}
	if expectNote != "" && expectNote != "no expect file" {
		fmt.Fprintln(os.Stderr, "EXPECT:", expectNote)
		violations++
		os.MkdirAll(filepath.Join(*verif, "replays", *prop), 0o755)
		p := filepath.Join(*verif, "replays", *prop, "missing-obligations.json")
		b, _ := json.MarshalIndent(map[string]any{"property": *prop, "failed_obligation": "obligation-set", "detail": expectNote}, "", " ")
		os.WriteFile(p, b, 0o644)
		violLines = append(violLines, fmt.Sprintf("VIOLATION property=%s replay=%s no-failing-input-found", *prop, p))
	}
	if vacuous {
		// a genuine failed obligation is still reported as a violation; without one the run is undecided
		if violations > 0 {
			for _, l := range violLines {
				fmt.Println(l)
			}
			return 1
		}
		return 2
	}
	// evidence
	trusted := map[string]bool{}
	notes := map[string]bool{}
	var funcs []string
	for _, t := range targets {
		funcs = append(funcs, t.c.Pkg[strings.Index(t.c.Pkg, "milvus-cdc/")+11:]+"."+t.c.Key)
		for _, x := range t.u.Trusted {
			trusted[x] = true
		}
		for _, x := range t.u.Notes {
			notes[x] = true
		}
	}
	for _, l := range cs.Lemmas {
		if l.Axiom && (len(l.Props) == 0 || contains(l.Props, *prop)) {
			trusted["axiom (math lemma, assumed): "+l.Name+": "+l.Src] = true
		}
	}
	trusted["solvers: z3 5.1.0 (z3-new), cvc5 1.0.x, z3 4.8.12; go/ssa (x/tools v0.29.0) as the semantics of the Go source"] = true
	trusted["govc VC generator itself (tested by the must-fail corpus in selftest/)"] = true
	var tb, asm []string
	for x := range trusted {
		if strings.HasPrefix(x, "assumed:") {
			asm = append(asm, x)
		} else {
			tb = append(tb, x)
		}
	}
	for x := range notes {
		asm = append(asm, x)
	}
	sort.Strings(tb)
	sort.Strings(asm)
	asm = append(asm, "integers: exact machine arithmetic (wrap-around modelled) in code; contract-level integers are mathematical",
		"termination is not proved unless a decreases clause is present")
	if *verbose {
		for _, r := range reports {
			fmt.Fprintf(os.Stderr, "%-14s %-8s %6.2fs %s  @%s\n", r.Status, r.Solver, r.Secs, r.Name, r.Pos)
		}
	}
	ev := map[string]any{
		"property_id": *prop, "tier": *tier, "seed": seed, "level": "proof",
		"coverage": map[string]any{
			"obligations": total, "discharged": discharged,
			"checker_cmd":              fmt.Sprintf("bin/govc check -prop %s -tier %s (SSA->SMT-LIB VCs; z3-new/cvc5/z3 per obligation)", *prop, *tier),
			"trusted_base":             tb,
			"functions_under_contract": funcs,
			"cover_checks":             covers,
			"solver_use":               solverUse,
			"solver_secs_total":        round2(solveSecs),
			"max_obligation_secs":      round2(maxSecs),
			"load_secs":                round2(loadSecs),
			"vcgen_secs":               round2(genSecs),
			"samples":                  samples,
			"obligation_reports":       reports,
			"known_findings":           knownLines,
			"unreachable_returns":      deadReturns,
			"expect":                   expectNote,
		},
		"assumptions": asm,
		"wall_s":      round2(time.Since(t0).Seconds()),
		"violations":  violations,
	}
	if !*noEvidence && *only == "" {
		os.MkdirAll(filepath.Join(*verif, "evidence"), 0o755)
		b, _ := json.MarshalIndent(ev, "", " ")
		os.WriteFile(filepath.Join(*verif, "evidence", *prop+".json"), b, 0o644)
	}
	for _, l := range knownLines {
		fmt.Println(l)
	}
	for _, d := range deadReturns {
		fmt.Fprintln(os.Stderr, "UNREACHABLE-RETURN (check for vacuity):", d)
	}
	fmt.Printf("%s %s: %d/%d obligations discharged, %d cover checks, %d functions, %.1fs (load %.1fs, vcgen %.1fs, solve %.1fs)\n",
		*prop, *tier, discharged, total, covers, len(targets), time.Since(t0).Seconds(), loadSecs, genSecs, solveSecs)
	if violations > 0 {
		for _, l := range violLines {
			fmt.Println(l)
		}
		return 1
	}
	return 0
}

func round2(f float64) float64 { return float64(int(f*100+0.5)) / 100 }

func contains(xs []string, x string) bool {
	for _, y := range xs {
		if y == x {
			return true
		}
	}
	return false
}

func diff(want, have []string) []string {
	h := map[string]bool{}
	for _, x := range have {
		h[x] = true
	}
	var out []string
	for _, x := range want {
		if x != "" && !h[x] {
			out = append(out, x)
		}
	}
	return out
}

func loadKnown(path string) []KnownFinding {
	b, err := os.ReadFile(path)
	if err != nil {
		return nil
	}
	var f struct {
		Findings []KnownFinding `json:"findings"`
	}
	if err := json.Unmarshal(b, &f); err != nil {
		fmt.Fprintln(os.Stderr, "BROKEN: known_findings.json:", err)
		os.Exit(2)
	}
	return f.Findings
}

func matchKnown(ks []KnownFinding, prop, obl string) *KnownFinding {
	for i := range ks {
		if ks[i].Status == "known" && ks[i].Property == prop && ks[i].Obligation == obl {
			return &ks[i]
		}
	}
	return nil
}

func cmdDump(args []string) int {
	fs := flag.NewFlagSet("dump", flag.ExitOnError)
	repo := fs.String("repo", "/repo", "")
	mod := fs.String("mod", "core", "")
	pkg := fs.String("pkg", "./writer", "")
	fn := fs.String("fn", "", "")
	fs.Parse(args)
	ld, err := loadModule(filepath.Join(*repo, *mod), strings.Split(*pkg, ","))
	if err != nil {
		fmt.Fprintln(os.Stderr, err)
		return 2
	}
	var ks []string
	for k := range ld.funcs {
		ks = append(ks, k)
	}
	sort.Strings(ks)
	for _, k := range ks {
		if *fn == "" {
			fmt.Println(k)
		} else if strings.HasSuffix(k, "::"+*fn) {
			ld.funcs[k].WriteTo(os.Stdout)
		}
	}
	return 0
}
