#!/usr/bin/env python3
"""Must-fail corpus: applies each deliberate property-breaking edit to a scratch copy of /repo and
checks that the property's check reports a VIOLATION naming the expected obligation.
usage: run.py [prop-or-id-filter ...]      exit 0 iff every selected mutant is caught as expected."""
import json, os, shutil, subprocess, sys, tempfile
here = os.path.dirname(os.path.abspath(__file__))
verif = os.path.dirname(here)
muts = json.load(open(os.path.join(here, "mutants.json")))
full = "--full" in sys.argv[1:]
flt = [a for a in sys.argv[1:] if a != "--full"]
sel = [m for m in muts if not flt or any(f == m["prop"] or f in m["id"] for f in flt)]
bad = 0
ENV = dict(os.environ, GOFLAGS="-mod=mod", GOPROXY="off", GOSUMDB="off", GOTOOLCHAIN="local")
baseline = {}
def only_of(m):
    """the function whose obligations are expected to fail: the check is restricted to it (fast); --full runs the whole property"""
    if full or m.get("only") == "":
        return None
    if m.get("only"):
        return m["only"]
    e = m["expect"]
    if "#" in e and not e.startswith("lemma#"):
        return e.split("#")[0]
    return None
def base_failed(prop, tier, only=None):
    """obligations that fail on the unchanged tree (must be none): they are not evidence that a mutant is caught"""
    if (prop, tier, only) not in baseline:
        tmpb = tempfile.mkdtemp(prefix="govc-mutb-")
        r = subprocess.run([os.path.join(verif, "bin/govc"), "check", "-prop", prop, "-tier", tier, "-repo", "/repo", "-verif", os.path.join(tmpb, "v"), "-no-evidence"] + (["-only", only] if only else []), capture_output=True, text=True, env=ENV)
        shutil.rmtree(tmpb, ignore_errors=True)
        fs = {l.split()[1] for l in (r.stdout + r.stderr).splitlines() if l.startswith("FAILED ") and "lemma#collKeyInjective" not in l}
        if fs:
            print(f"WARNING: {prop} {tier} fails on the unchanged tree: {sorted(fs)[:3]}")
        baseline[(prop, tier, only)] = fs
    return baseline[(prop, tier, only)]
for m in sel:
    tmp = tempfile.mkdtemp(prefix="govc-mut-")
    try:
        repo = os.path.join(tmp, "repo")
        subprocess.run(["rsync", "-a", "--exclude", ".git", "/repo/", repo + "/"], check=True)
        p = os.path.join(repo, m["file"])
        s = open(p).read()
        if s.count(m["old"]) < 1:
            print(f"BROKEN-MUTANT {m['id']}: pattern not found"); bad += 1; continue
        s = s.replace(m["old"], m["new"], m.get("count", 1))
        for e in m.get("more", []):  # further replacements in the same file
            if s.count(e["old"]) < 1:
                print(f"BROKEN-MUTANT {m['id']}: pattern not found ({e['old'][:30]})"); bad += 1
            s = s.replace(e["old"], e["new"], 1)
        open(p, "w").write(s)
        tier = m.get("tier", "quick")
        r = subprocess.run([os.path.join(verif, "bin/govc"), "check", "-prop", m["prop"], "-tier", tier, "-repo", repo, "-verif", os.path.join(tmp, "v"), "-no-evidence"] + (["-only", only_of(m)] if only_of(m) else []),
                           capture_output=True, text=True, env=dict(os.environ, GOFLAGS="-mod=mod", GOPROXY="off", GOSUMDB="off", GOTOOLCHAIN="local"))
        out = r.stdout + r.stderr
        # expectation file of the real /verif is not used in the scratch verif dir (no expect there)
        failed = [l.split()[1] for l in out.splitlines() if l.startswith("FAILED ")]
        failed = [f for f in failed if f not in base_failed(m["prop"], tier, only_of(m))]
        ok = r.returncode == 1 and any(m["expect"] in f for f in failed)
        print(("caught   " if ok else "MISSED   ") + f"{m['id']:28s} {m['prop']} exit={r.returncode} failed={failed[:4]}")
        if not ok:
            bad += 1
            if r.returncode == 2: print(out[-800:])
    finally:
        shutil.rmtree(tmp, ignore_errors=True)
print(f"{len(sel)-bad}/{len(sel)} mutants caught")
sys.exit(1 if bad else 0)
