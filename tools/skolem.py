#!/usr/bin/env python3
"""skolem.py <query.smt2> [term ...]: debugging aid. Rewrites the final `(assert (not (forall ((|q!x| S)...) (! body :pattern..))))`
of a govc query into a skolemised form, runs z3-new and prints the witness values plus the requested terms."""
import sys, re, subprocess
src = open(sys.argv[1]).read()
i = src.rindex("(assert (not (forall (")
head, tail = src[:i], src[i:]
end = tail.index("\n(check-sat)")
a = tail[:end]
m = re.match(r"\(assert \(not \(forall \(((?:\(\|[^|]+\| [A-Za-z]+\)\s*)+)\) ", a)
vars_ = re.findall(r"\(\|([^|]+)\| ([A-Za-z]+)\)", m.group(1))
body = a[m.end():-3]  # strip ")))"
if body.startswith("(! "):
    j = body.rindex(" :pattern")
    body = body[3:j]
decl = "".join("(declare-const |%s| %s)\n" % v for v in vars_)
q = head + decl + "(assert (not " + body + "))\n(check-sat)\n(get-value (" + " ".join("|%s|" % v[0] for v in vars_) + " " + " ".join(sys.argv[2:]) + "))\n"
open("/tmp/skolem.smt2", "w").write(q)
r = subprocess.run(["z3-new", "-T:60", "/tmp/skolem.smt2"], capture_output=True, text=True)
print(r.stdout[:6000])
